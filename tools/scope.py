"""C06 oracle: binding analysis of the visitor's raw output (identifier identity = name + syntax
context, as SWC's resolver and `private_ident!` leave it).

For every identifier the transform generated (syntax context >= GEN):
  * it is declared exactly once in the output (import specifier, variable declarator, function
    declaration, parameter);
  * the declaration is in a statement list / function that encloses the use;
  * when the use is evaluated as the enclosing list runs (not inside a nested function), the
    declaration comes earlier in that list;
  * every generated declaration is used.
The output has no free (unresolved) identifier the input did not have, except a configured pragma.
A generated `const _x = (function () { return x })()` that reads a user `let`/`const`/`class`
binding declared later in the same list is reported as the known class `hoisted_capture_tdz`.
"""
from collections import Counter

GEN = 1000000


def is_ident(n):
    return isinstance(n, dict) and n.get("type") == "Identifier" and isinstance(n.get("ctxt"), int) and isinstance(n.get("value"), str)


def key_of(n):
    return (n["value"], n["ctxt"])


def pattern_idents(p, out, defaults):
    """binding identifiers of a pattern; default-value expressions are collected in `defaults`"""
    if p is None:
        return
    if isinstance(p, list):
        for x in p:
            pattern_idents(x, out, defaults)
        return
    if not isinstance(p, dict):
        return
    t = p.get("type")
    if is_ident(p):
        out.append(p)
    elif t == "Parameter":
        pattern_idents(p.get("pat"), out, defaults)
    elif t == "TsParameterProperty":
        pattern_idents(p.get("param"), out, defaults)
    elif t == "ArrayPattern":
        pattern_idents(p.get("elements"), out, defaults)
    elif t == "ObjectPattern":
        for q in p.get("properties", []):
            qt = q.get("type")
            if qt == "KeyValuePatternProperty":
                if isinstance(q.get("key"), dict) and q["key"].get("type") == "Computed":
                    defaults.append(q["key"])
                pattern_idents(q.get("value"), out, defaults)
            elif qt == "AssignmentPatternProperty":
                if is_ident(q.get("key")):
                    out.append(q["key"])
                if q.get("value") is not None:
                    defaults.append(q["value"])
            elif qt == "RestElement":
                pattern_idents(q.get("argument"), out, defaults)
    elif t == "RestElement":
        pattern_idents(p.get("argument"), out, defaults)
    elif t == "AssignmentPattern":
        pattern_idents(p.get("left"), out, defaults)
        defaults.append(p.get("right"))
    else:
        # an expression used as assignment target (member expression, ...): plain references
        defaults.append(p)


def decls_of_stmt(st):
    """declarations a statement introduces into the enclosing statement list: [(key, kind)]"""
    if not isinstance(st, dict):
        return []
    t = st.get("type")
    out = []
    if t == "VariableDeclaration":
        ids = []
        for d in st.get("declarations", []):
            pattern_idents(d.get("id"), ids, [])
        out = [(key_of(i), st.get("kind", "var")) for i in ids]
    elif t in ("FunctionDeclaration", "ClassDeclaration"):
        if is_ident(st.get("identifier")):
            out = [(key_of(st["identifier"]), "function" if t == "FunctionDeclaration" else "class")]
    elif t == "ImportDeclaration":
        for sp in st.get("specifiers", []):
            if is_ident(sp.get("local")):
                out.append((key_of(sp["local"]), "import"))
    elif t == "ExportDeclaration":
        out = decls_of_stmt(st.get("declaration"))
    elif t == "ExportDefaultDeclaration":
        d = st.get("decl")
        if isinstance(d, dict) and is_ident(d.get("identifier")):
            out = [(key_of(d["identifier"]), "function")]
    return out


class Scope:
    def __init__(self):
        self.errors = []          # (kind, name)
        self.known = []           # (class, name)
        self.decl = Counter()
        self.refs = Counter()
        self.assigned = Counter()   # generated identifiers on the left of `=`
        self.kind = {}

    def declare(self, ident, kind):
        k = key_of(ident)
        self.decl[k] += 1
        self.kind[k] = kind

    def ref(self, n, now, later, capture=False):
        k = key_of(n)
        self.refs[k] += 1
        if k[1] >= GEN:
            if k not in now:
                self.errors.append(("used-before-declaration" if k in later else "unbound", k[0]))
        elif capture and k not in now and k in later:
            # the generated initialiser runs before the user's declaration does
            self.known.append(("hoisted_capture_tdz", k[0]))

    def walk_list(self, stmts, now, later):
        here = [d for st in stmts for d in decls_of_stmt(st)]
        later2 = later | {k for k, _ in here}
        now2 = set(now) | {k for k, kind in here if kind in ("function", "import")}
        for st in stmts:
            self.walk(st, now2, later2)
            now2 |= {k for k, _ in decls_of_stmt(st)}

    def function(self, params, body, now, later, own=None, eager=False):
        ids, defaults = [], []
        pattern_idents(params, ids, defaults)
        for i in ids:
            self.declare(i, "param")
        inner = {key_of(i) for i in ids}
        if own is not None and is_ident(own):
            inner.add(key_of(own))
        n2 = (set(now) if eager else set(now) | later) | inner
        l2 = later | inner
        for d in defaults:
            self.walk(d, n2, l2)
        if isinstance(body, dict) and body.get("type") == "BlockStatement":
            self.walk_list(body.get("stmts", []), n2, l2)
        else:
            self.walk(body, n2, l2)

    def walk(self, n, now, later, capture=False):
        if isinstance(n, list):
            for x in n:
                self.walk(x, now, later, capture)
            return
        if not isinstance(n, dict):
            return
        t = n.get("type")
        if is_ident(n):
            self.ref(n, now, later, capture)
            return
        if t == "Module" or t == "Script":
            self.walk_list(n.get("body", []), now, later)
        elif t == "BlockStatement":
            self.walk_list(n.get("stmts", []), now, later)
        elif t == "ImportDeclaration":
            for sp in n.get("specifiers", []):
                if is_ident(sp.get("local")):
                    self.declare(sp["local"], "import")
        elif t in ("ExportNamedDeclaration", "ExportAllDeclaration", "BreakStatement", "ContinueStatement"):
            return
        elif t == "SwitchStatement":
            # one block scope for all clauses; each clause's statements run in order
            self.walk(n.get("discriminant"), now, later)
            every = {k for c in n.get("cases", []) for st in c.get("consequent", []) for k, _ in decls_of_stmt(st)}
            for c in n.get("cases", []):
                self.walk(c.get("test"), now, later)
                self.walk_list(c.get("consequent", []), now, later | every)
        elif t == "LabeledStatement":
            self.walk(n.get("body"), now, later)
        elif t == "VariableDeclaration":
            for d in n.get("declarations", []):
                ids, defaults = [], []
                pattern_idents(d.get("id"), ids, defaults)
                init = d.get("init")
                generated = any(key_of(i)[1] >= GEN for i in ids)
                callee = init.get("callee") if isinstance(init, dict) and init.get("type") == "CallExpression" else None
                while isinstance(callee, dict) and callee.get("type") == "ParenthesisExpression":
                    callee = callee.get("expression")
                if generated and isinstance(callee, dict) and callee.get("type") == "FunctionExpression":
                    # `const _x = (function () { return x })()`: the body runs right here
                    self.function(callee.get("params"), callee.get("body"), now, later, eager=True)
                    self.capture_body(callee.get("body"), now, later)
                    self.walk(init.get("arguments"), now, later)
                else:
                    self.walk(init, now, later)
                for x in defaults:
                    self.walk(x, now, later)
                for i in ids:
                    self.declare(i, n.get("kind", "var"))
        elif t in ("FunctionDeclaration", "FunctionExpression"):
            if t == "FunctionDeclaration" and is_ident(n.get("identifier")):
                self.declare(n["identifier"], "function")
            self.function(n.get("params"), n.get("body"), now, later, own=n.get("identifier"))
        elif t == "ArrowFunctionExpression":
            self.function(n.get("params"), n.get("body"), now, later)
        elif t in ("ClassDeclaration", "ClassExpression"):
            if t == "ClassDeclaration" and is_ident(n.get("identifier")):
                self.declare(n["identifier"], "class")
            inner = set(now) | later
            if is_ident(n.get("identifier")):
                inner.add(key_of(n["identifier"]))
            self.walk(n.get("superClass"), now, later)
            for m in n.get("body", []):
                self.class_member(m, inner, later | inner)
        elif t in ("MethodProperty",):
            self.walk_key(n.get("key"), now, later)
            self.function(n.get("params"), n.get("body"), now, later)
        elif t == "GetterProperty":
            self.walk_key(n.get("key"), now, later)
            self.function([], n.get("body"), now, later)
        elif t == "SetterProperty":
            self.walk_key(n.get("key"), now, later)
            self.function([n.get("param")], n.get("body"), now, later)
        elif t == "CatchClause":
            ids, defaults = [], []
            pattern_idents(n.get("param"), ids, defaults)
            for i in ids:
                self.declare(i, "param")
            inner = {key_of(i) for i in ids}
            body = n.get("body") or {}
            self.walk_list(body.get("stmts", []), set(now) | inner, later | inner)
        elif t == "ImportSpecifier" or t == "ExportSpecifier":
            return
        elif t == "AssignmentExpression":
            tgt = n.get("left")
            while isinstance(tgt, dict) and tgt.get("type") == "ParenthesisExpression":
                tgt = tgt.get("expression")
            if is_ident(tgt) and tgt["ctxt"] >= GEN:
                self.assigned[key_of(tgt)] += 1
            for k, v in n.items():
                self.walk(v, now, later, capture)
        else:
            for k, v in n.items():
                if k in ("typeAnnotation", "typeParameters", "returnType", "typeArguments"):
                    continue
                self.walk(v, now, later, capture)

    def capture_body(self, body, now, later):
        """user identifiers read by an immediately invoked generated function"""
        def go(x):
            if isinstance(x, list):
                for y in x:
                    go(y)
            elif isinstance(x, dict):
                if is_ident(x):
                    k = key_of(x)
                    if k[1] < GEN and k not in now and k in later:
                        self.known.append(("hoisted_capture_tdz", k[0]))
                else:
                    for v in x.values():
                        go(v)
        go(body)

    def walk_key(self, key, now, later):
        if isinstance(key, dict) and key.get("type") == "Computed":
            self.walk(key.get("expression"), now, later)

    def class_member(self, m, now, later):
        if not isinstance(m, dict):
            return
        t = m.get("type")
        if t in ("ClassMethod", "PrivateMethod"):
            self.walk_key(m.get("key"), now, later)
            f = m.get("function") or {}
            self.function(f.get("params"), f.get("body"), now, later)
        elif t == "Constructor":
            self.function(m.get("params"), m.get("body"), now, later)
        elif t in ("ClassProperty", "PrivateProperty"):
            self.walk_key(m.get("key"), now, later)
            self.walk(m.get("value"), now, later)
        elif t == "StaticBlock":
            body = m.get("body") or {}
            self.walk_list(body.get("stmts", []), now, later)
        else:
            self.walk(m, now, later)


def unresolved_names(tree, unres):
    out = set()
    def go(x):
        if isinstance(x, list):
            for y in x:
                go(y)
        elif isinstance(x, dict):
            if is_ident(x):
                if x["ctxt"] == unres:
                    out.add(x["value"])
            else:
                for k, v in x.items():
                    if k != "imported":
                        go(v)
    go(tree)
    return out


def vmodel_target_decls(tree):
    """binding identifiers declared inside the value of a v-model / v-models attribute: the
    target expression is emitted twice (as the value and inside the listener), so whatever it
    declares - an arrow's parameters, a function body's variables - is legitimately declared
    twice in the output"""
    out = set()
    def attr_name(n):
        nm = n.get("name") or {}
        if nm.get("type") == "JSXNamespacedName":
            nm = nm.get("namespace") or {}
        return nm.get("value") or ""
    def collect(x):
        if isinstance(x, list):
            for y in x:
                collect(y)
        elif isinstance(x, dict):
            t = x.get("type")
            if t in ("ArrowFunctionExpression", "FunctionExpression", "FunctionDeclaration"):
                ids = []
                pattern_idents(x.get("params"), ids, [])
                for i in ids:
                    out.add(key_of(i))
            if t == "VariableDeclarator":
                ids = []
                pattern_idents(x.get("id"), ids, [])
                for i in ids:
                    out.add(key_of(i))
            if t in ("FunctionDeclaration", "FunctionExpression", "ClassDeclaration", "ClassExpression") and is_ident(x.get("identifier")):
                out.add(key_of(x["identifier"]))
            if t == "CatchClause":
                ids = []
                pattern_idents(x.get("param"), ids, [])
                for i in ids:
                    out.add(key_of(i))
            for v in x.values():
                collect(v)
    def go(x):
        if isinstance(x, list):
            for y in x:
                go(y)
        elif isinstance(x, dict):
            if x.get("type") == "JSXAttribute":
                base = attr_name(x).split(":")[0].split("_")[0]
                if base in ("v-model", "vModel", "v-models", "vModels"):
                    collect(x.get("value"))
            for v in x.values():
                go(v)
    go(tree)
    return out


def analyse(output, input_tree, unres, pragma_names):
    """returns (errors, known): lists of (kind, name)"""
    sc = Scope()
    sc.walk(output, set(), set())
    errors = list(sc.errors)
    # a declaration the transform added must carry a context of its own: one that reuses the
    # context of a source identifier can capture or collide with the user's binding of that name
    si = Scope()
    if input_tree is not None:
        si.walk(input_tree, set(), set())
        twice = vmodel_target_decls(input_tree)
        for k, c in sc.decl.items():
            # (the empty context 0 is no source identifier's: the resolver marks every one of them)
            if 0 < k[1] < GEN and c > si.decl.get(k, 0) and k not in twice:
                errors.append(("added-declaration-without-fresh-context", k[0]))
    for k, c in sc.assigned.items():
        # a generated temporary carries ONE value: the slot function that reads it later must find
        # the value its own element put there
        if c > 1:
            errors.append(("temporary-assigned-more-than-once", k[0]))
    for k, c in sc.decl.items():
        if k[1] >= GEN:
            if c > 1:
                errors.append(("declared-twice", k[0]))
            if sc.refs[k] == 0:
                errors.append(("unused", k[0]))
    free = unresolved_names(output, unres) - unresolved_names(input_tree, unres) - set(pragma_names)
    for name in sorted(free):
        errors.append(("new-free-variable", name))
    return errors, sc.known
