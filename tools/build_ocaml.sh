#!/bin/bash
# extraction (ExtrOcamlBasic only) + dune build of the runner
set -e
cd "$(dirname "$0")/../ocaml/gen"
rm -f ./*.ml ./*.mli
coqc -Q ../../coq VJ ../../coq/Extract/Extract.v >/dev/null
cd ..
dune build ./driver.exe 2>&1
