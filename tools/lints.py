#!/usr/bin/env python3
"""Source lints guarding modelling assumptions (DESIGN 4.4). Exit 1 on a failed lint."""
import os, re, sys
REPO = os.environ.get("VERIF_REPO", "/repo")
SRC = os.path.join(REPO, "visitor", "src")
bad = []
files = {f: open(os.path.join(SRC, f)).read() for f in os.listdir(SRC) if f.endswith(".rs")}
allsrc = "\n".join(files.values())

# 1. the registries are never iterated (hash order would reach the output)
for name in ("interfaces", "type_aliases"):
    for m in re.finditer(r"self\s*\.\s*%s\s*\.\s*(\w+)" % name, allsrc):
        if m.group(1) not in ("get", "get_mut", "insert"):
            bad.append(f"registry `{name}` used with `.{m.group(1)}` (only get/get_mut/insert are modelled)")
# 2. no clock / env / randomness / threads / files / process-wide state
for pat in (r"std::time", r"\brand::", r"std::env", r"std::thread", r"std::fs", r"thread_local!", r"\bstatic\s+(mut\s+)?[A-Z_]+\s*:", r"lazy_static", r"OnceCell", r"OnceLock", r"SystemTime", r"Instant::"):
    if re.search(pat, allsrc):
        bad.append(f"source uses `{pat}` (the model is a pure function of (module, options))")
# 3. Mark::new only through private_ident!
if re.search(r"Mark::new\s*\(", allsrc) or re.search(r"Mark::fresh", allsrc):
    bad.append("Mark::new outside private_ident!")
# 4. panic sites: the model has Panic constructors for exactly these
sites = []
PATS = [r"unreachable!\s*\(", r"\.unwrap\(\)", r"\.expect\(", r"panic!\s*\(", r"as_bytes\(\)\[0\]", r"todo!\s*\(", r"unimplemented!\s*\("]
for f, s in sorted(files.items()):
    for i, line in enumerate(s.split("\n"), 1):
        code = line.split("//")[0]
        for pat in PATS:
            if re.search(pat, code):
                sites.append((f, {0: "unreachable", 1: ".unwrap", 2: ".expect", 3: "panic", 4: "as_bytes[0]", 5: "todo", 6: "unimplemented"}[PATS.index(pat)]))
expected = sorted([("lib.rs", "as_bytes[0]"), ("lib.rs", "as_bytes[0]"), ("lib.rs", "unreachable"), ("lib.rs", "unreachable")])
got = sorted((f, k) for f, k in sites)
if got != expected:
    bad.append(f"panic sites changed: expected {expected}, found {got}")
# 5. diagnostics: the set of HANDLER.with sites
n_handler = len(re.findall(r"HANDLER\s*\.\s*with\b", allsrc))
exp_handler = 17
if n_handler != exp_handler:
    bad.append(f"number of HANDLER.with sites is {n_handler}, the model has {exp_handler}")
if bad:
    print("lints: FAILED\n  " + "\n  ".join(bad))
    sys.exit(1)
print("lints ok")
