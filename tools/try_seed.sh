#!/bin/bash
# usage: try_seed.sh <seed-id> <property> [tier]   -- apply a seeded mutant to /repo, run a check, undo
cd /verif
if ! git -C /repo apply /verif/seeded/$1/patch.diff 2>/tmp/apply.err; then echo "PATCH DOES NOT APPLY: $(head -2 /tmp/apply.err)"; git -C /repo reset -q --hard HEAD; exit 3; fi
git -C /repo reset -q
cp evidence/$2.json /tmp/evidence_$2.bak 2>/dev/null
bin/vp check $2 ${3:-quick} > /tmp/seed_$1_$2.out 2>&1; rc=$?
# the evidence of a run on a mutated tree is not evidence about /repo: put the previous file back
[ -f /tmp/evidence_$2.bak ] && mv /tmp/evidence_$2.bak evidence/$2.json
grep -E "^VIOLATION|^KNOWN" /tmp/seed_$1_$2.out | cut -c1-200
echo "seed=$1 check=$2 rc=$rc"
git -C /repo checkout -- .
git -C /verif checkout -- coq/Gen/Tables.v
# the harness binary was built against the patched tree: rebuild it against the restored one
(cd /verif/harness && RUSTFLAGS="--cfg swc_vue_jsx_verif" cargo build --offline >/dev/null 2>&1)
