#!/usr/bin/env python3
"""Case generators (DESIGN 4.2).  Every random choice comes from one SplitMix64 state.
A case is {id, src, syntax, options, stream, feat:[...]}; written as JSON lines."""
import json, sys

MASK = (1 << 64) - 1


class Rng:
    def __init__(self, seed):
        self.s = seed & MASK

    def next(self):
        self.s = (self.s + 0x9E3779B97F4A7C15) & MASK
        z = self.s
        z = ((z ^ (z >> 30)) * 0xBF58476D1CE4E5B9) & MASK
        z = ((z ^ (z >> 27)) * 0x94D049BB133111EB) & MASK
        return z ^ (z >> 31)

    def below(self, n):
        return self.next() % n

    def pick(self, xs):
        return xs[self.below(len(xs))]

    def chance(self, num, den):
        return self.below(den) < num

    def wpick(self, pairs):
        tot = sum(w for w, _ in pairs)
        r = self.below(tot)
        for w, x in pairs:
            if r < w:
                return x
            r -= w
        return pairs[-1][1]


BOUND = ["Comp", "Foo", "a", "b", "foo", "fn", "slots", "NS", "KeepAlive", "_Fragment", "val", "arg"]
UNBOUND = ["U", "y", "g", "h", "props", "Bar", "x-el", "zed", "undefined"]
PROLOGUE = ("import Comp from './c'; import * as NS from './n'; import { KeepAlive, Fragment as _Fragment } from 'vue';\n"
            "let a, b, foo, val, arg; const slots = {}; function fn() {}\nclass Foo {}\n")
HTML = ["div", "span", "input", "select", "textarea", "p", "a", "button", "h1", "li", "video"]
SVG = ["svg", "circle", "path", "linearGradient", "clipPath", "foreignObject", "feBlend", "textPath", "font-face"]
TEXT_ALPHA = [" ", " ", "\t", "\n", "\r\n", "\r", " ", " ", "　", "\x0b", "x", "y", "Z", "&nbsp;", "&amp;", "&#8195;", "é"]
ATTR_TEXT = [" ", "\t", "\n", "a", "b", "-", " ", "c d", "\\", "\\u", "\r", "  \n"]
PATTERNS = ["^x-", "^my-", "^Foo$", "-el$", "^U$"]
MODS = ["a", "b", "trim", "lazy", "a-b", "1x", "2xl", "300ms", "05", "1st"]


class Gen:
    def __init__(self, rng):
        self.r = rng
        self.feat = set()

    def f(self, *names):
        for n in names:
            self.feat.add(n)

    # ---- expressions -----------------------------------------------------------------
    def ident(self):
        r = self.r
        if r.chance(1, 2):
            self.f("id:bound")
            return r.pick([x for x in BOUND if x.isidentifier()])
        self.f("id:unbound")
        return r.pick([x for x in UNBOUND if x.isidentifier()])

    def lit(self):
        self.f("lit")
        return self.r.pick(["1", "0.5", "'s'", '"t"', "true", "false", "null", "/re/g", "10n", "`tpl`"])

    def expr(self, d=2, jsx=True):
        r = self.r
        if getattr(self, "nojsx", False):
            jsx = False
        kinds = [(6, "ident"), (5, "lit"), (3, "call"), (3, "member"), (2, "array"), (2, "object"),
                 (2, "arrow"), (1, "fn"), (1, "cond"), (1, "this"), (1, "assign"), (1, "bin"), (1, "paren"), (1, "tpl")]
        if jsx and d > 0:
            kinds += [(3, "jsx"), (1, "frag")]
        k = r.wpick(kinds)
        if d <= 0 and k in ("array", "object", "arrow", "fn", "cond", "assign", "bin", "paren"):
            k = "ident"
        self.f("expr:" + k)
        if k == "ident":
            return self.ident()
        if k == "lit":
            return self.lit()
        if k == "call":
            args = ", ".join(self.expr(d - 1, jsx) for _ in range(r.below(3)))
            return f"{r.pick(['g', 'fn', 'h', 'foo.bar', 'NS.make'])}({args})"
        if k == "member":
            return r.pick(["foo.bar", "a.b.c", "y[0]", "props.x", "NS.k", "g().z"])
        if k == "this":
            return r.pick(["this", "this.x"])
        if k == "array":
            n = r.below(4)
            items = []
            for _ in range(n):
                c = r.below(10)
                if c == 0:
                    items.append("")
                    self.f("array:hole")
                elif c == 1:
                    items.append("..." + self.expr(d - 1, jsx))
                    self.f("array:spread")
                else:
                    items.append(self.expr(d - 1, jsx))
            return "[" + ", ".join(items) + ("," if items and items[-1] == "" else "") + "]"
        if k == "object":
            n = r.below(4)
            ps = []
            for _ in range(n):
                c = r.below(12)
                key = r.pick(["k", "default", "class", "'q-r'", "onClick", "props", "name", "1"])
                if c == 0:
                    ps.append("..." + self.expr(d - 1, jsx)); self.f("object:spread")
                elif c == 1:
                    ps.append(r.pick(["a", "foo", "undefined", "y"])); self.f("object:shorthand")
                elif c == 2:
                    ps.append(f"[{self.expr(d - 1, False)}]: {self.expr(d - 1, jsx)}"); self.f("object:computed")
                elif c == 3:
                    ps.append(f"{key}() {{ return {self.expr(d - 1, jsx)} }}"); self.f("object:method")
                elif c == 4:
                    ps.append(f"get {key}() {{ return 1 }}"); self.f("object:getter")
                else:
                    ps.append(f"{key}: {self.expr(d - 1, jsx)}")
            return "({" + ", ".join(ps) + "})" if False else "{" + ", ".join(ps) + "}"
        if k == "arrow":
            body = self.expr(d - 1, jsx)
            if body.startswith("{"):
                body = "(" + body + ")"
            params = r.pick(["", "p", "p, q", "{ z }", f"p = {self.expr(d - 1, jsx)}"])
            if r.chance(1, 4):
                return f"(({params}) => {{ const k = 1; return {body} }})"
            return f"(({params}) => {body})"
        if k == "fn":
            return f"(function ({r.pick(['', 'p'])}) {{ return {self.expr(d - 1, jsx)} }})"
        if k == "cond":
            return f"({self.expr(d - 1, jsx)} ? {self.expr(d - 1, jsx)} : {self.expr(d - 1, jsx)})"
        if k == "assign":
            return f"({r.pick(['a', 'b', 'foo', 'y'])} = {self.expr(d - 1, jsx)})"
        if k == "bin":
            return f"({self.expr(d - 1, jsx)} {r.pick(['+', '||', '&&', '===', '??'])} {self.expr(d - 1, jsx)})"
        if k == "paren":
            return f"({self.expr(d - 1, jsx)})"
        if k == "tpl":
            return "`t${" + self.ident() + "}`"
        if k == "jsx":
            return self.elem(d - 1)
        if k == "frag":
            return "<>" + self.children(d - 1) + "</>"
        return "x"

    def braced(self, e):
        return "{" + e + "}"

    # ---- JSX -------------------------------------------------------------------------
    def tag(self):
        r = self.r
        k = r.wpick([(5, "html"), (1, "svg"), (2, "pattern"), (5, "bound"), (4, "unbound"), (2, "member"),
                     (1, "this"), (1, "ns"), (1, "Fragment"), (1, "_Fragment"), (1, "KeepAlive"), (1, "memfrag"), (1, "lowerunknown")])
        self.f("tag:" + k)
        if k == "html":
            return r.pick(HTML)
        if k == "svg":
            return r.pick(SVG)
        if k == "pattern":
            return r.pick(["x-el", "my-widget", "Foo", "U", "foo-el"])
        if k == "bound":
            return r.pick(["Comp", "Foo", "a", "foo"])
        if k == "unbound":
            return r.pick(["U", "Bar", "Panel", "Card"])
        if k == "member":
            return r.pick(["NS.Item", "foo.bar", "NS.div", "a.b.c", "NS.KeepAlive"])
        if k == "this":
            return r.pick(["this.C", "this.x.y"])
        if k == "ns":
            return r.pick(["svg:rect", "x:y"])
        if k == "Fragment":
            return "Fragment"
        if k == "_Fragment":
            return "_Fragment"
        if k == "KeepAlive":
            return "KeepAlive"
        if k == "memfrag":
            return r.pick(["NS.Fragment", "Vue.Fragment", "NS._Fragment1"])
        return r.pick(["foo", "custom", "unknowntag"])

    def attr_string(self):
        r = self.r
        n = r.below(5)
        s = "".join(r.pick(ATTR_TEXT) for _ in range(n))
        self.f("attr:string")
        q = r.pick(['"', "'"])
        return q + s + q

    def directive(self, d):
        r = self.r
        base = r.wpick([(3, "v-show"), (3, "v-custom"), (2, "vCus"), (2, "vFooBar"), (3, "v-model"), (1, "vModel"),
                        (2, "v-html"), (2, "v-text"), (2, "v-slots"), (1, "v-models"), (1, "v--x"), (1, "vvX"), (1, "vHtml"),
                        (2, "v-validate"), (1, "v-v-x"), (1, "vVisible"), (1, "v-vv"), (1, "v-Show"), (1, "vShow"),
                        (1, "vXAxis"), (1, "v-BToggle"), (1, "vUIState"), (1, "vHTML"), (1, "v-MODEL"),
                        (1, "v-\u6743\u9650"), (1, "v-\u00e9ditable"), (1, "v\u00c9tat")])
        self.f("dir:" + base)
        name = base
        heavy = getattr(self, "dir_heavy", False)
        if base != "v-models" and r.chance(2 if heavy else 1, 4):
            name += ":" + r.pick(["arg", "value", "title_m", "a_b_c"])
            self.f("dir:ns")
        if base != "v-models" and r.chance(1, 4):
            name += "".join("_" + r.pick(["a", "b", "trim", "lazy", "2xl", "300ms", "500"]) for _ in range(1 + r.below(2)))
            self.f("dir:_mod")
        c = r.below(14)
        if heavy and r.chance(2, 3):
            c = 6                      # the array form
        target = r.pick(["val", "foo.bar", "y", "a[0]", "this.v", "props.m"])
        if base == "v-models":
            n = r.below(4)
            rows = []
            for _ in range(n):
                cc = r.below(8)
                if cc == 0:
                    rows.append("x")
                elif cc == 1:
                    rows.append("...rest")
                elif cc == 2:
                    rows.append("")
                else:
                    rows.append(self.vmodel_array(target, d))
            body = "[" + ", ".join(rows) + ("," if rows and rows[-1] == "" else "") + "]"
            if r.chance(1, 8):
                return "v-models" if r.chance(1, 2) else 'v-models="x"'
            if r.chance(1, 8):
                return "v-models={foo}"
            return "v-models={" + body + "}"
        if base == "v-slots":
            v = r.pick(["slots", "{ foo: () => 1 }", "y", "fn()", "{ ...slots }", "a"])
            return f"{name}={{{v}}}"
        if c == 0:
            self.f("dirval:none")
            return name
        if c == 1:
            self.f("dirval:string")
            return name + "=" + r.pick(['"str"', '"C:\\users\\me"', '"a\\"', '"two\n  lines "', "'q'"])
        if c == 2 and d > 0:
            self.f("dirval:elem")
            return f"{name}=<b/>"
        if c == 3:
            self.f("dirval:emptyarr")
            return f"{name}={{[]}}"
        if c == 4:
            self.f("dirval:hole")
            return f"{name}={{[, {target}]}}"
        if c == 5:
            self.f("dirval:spread")
            return f"{name}={{[...y]}}"
        if c <= 9:
            self.f("dirval:array")
            return f"{name}={{{self.vmodel_array(target, d)}}}"
        self.f("dirval:expr")
        if "model" in base.lower():
            return f"{name}={{{target}}}"
        return f"{name}={{{self.expr(d - 1)}}}"

    def vmodel_array(self, target, d):
        r = self.r
        mods = "[" + ", ".join(r.pick(["'" + m + "'" for m in MODS] + ["y", "...z", ""]) for _ in range(r.below(3))) + "]"
        argk = r.pick(["'title'", "arg", "g()", "'a-b'", "null"])
        form = r.below(6)
        v = target if r.chance(3, 4) else self.expr(d - 1)
        if form == 0:
            return f"[{v}]"
        if form == 1:
            return f"[{v}, {argk}]"
        if form == 2:
            return f"[{v}, {mods}]"
        if form == 3:
            return f"[{v}, {argk}, {mods}]"
        if form == 4:
            return f"[{v}, {argk}, y]"
        return f"[{v}, ...y, {mods}]"

    def attr(self, d):
        r = self.r
        k = r.wpick([(4, "plain"), (3, "bool"), (5, "expr"), (2, "ns"), (3, "spread"), (3, "class"), (2, "style"),
                     (3, "listener"), (1, "key"), (1, "ref"), (2, "on"), (1, "nativeOn"), (1, "type"),
                     (40 if getattr(self, "dir_heavy", False) else 5, "directive"), (1, "elemval"), (1, "only"), (1, "update")])
        self.f("attrk:" + k)
        if k == "plain":
            return r.pick(["id", "title", "data-x", "ariaLabel"]) + "=" + self.attr_string()
        if k == "bool":
            return r.pick(["disabled", "checked", "id", "class"])
        if k == "expr":
            return r.pick(["id", "title", "value", "foo"]) + "=" + self.braced(self.expr(d - 1))
        if k == "ns":
            return r.pick(["xlink:href", "a:b", "on:click"]) + "=" + r.pick([self.attr_string(), self.braced(self.expr(d - 1))])
        if k == "spread":
            v = r.wpick([(3, self.ident()), (3, "{ " + ", ".join(f"{r.pick(['id', 'class', 'onClick', 'k'])}: {self.expr(0)}" for _ in range(r.below(3))) + " }"),
                         (2, "g()"), (1, "{ ...a, id: 1 }"), (1, "foo.bar")])
            self.f("spread")
            return "{..." + v + "}"
        if k == "class":
            return "class=" + r.pick([self.attr_string(), self.braced(self.expr(d - 1)), "{['a', b]}", "{{ a: true }}"])
        if k == "style":
            return "style=" + r.pick(['"color: red"', self.braced(self.expr(d - 1)), "{{ color: 'red' }}", "{[s1, s2]}"])
        if k == "listener":
            return r.pick(["onClick", "onclick", "onInput", "onUpdate:modelValue", "onFoo", "on-x", "onA"]) + "=" + self.braced(r.pick(["fn", "h", "() => 1", "g()", "[fn, h]"]))
        if k == "key":
            return "key=" + r.pick(['"k"', "{a}", "{1}"])
        if k == "ref":
            return "ref=" + r.pick(['"r"', "{a}", "{y}"])
        if k == "on":
            return "on=" + self.braced(r.pick(["{ click: fn }", "y", "{ click: fn, 'update:x': h }", "g()"]))
        if k == "nativeOn":
            return "nativeOn=" + self.braced(r.pick(["{ click: fn }", "y"]))
        if k == "type":
            return "type" + r.pick(['="checkbox"', '="radio"', '="text"', "={t}", "", '="CHECKBOX"', '={"checkbox"}', "={'radio'}", '={"text"}'])
        if k == "directive":
            return self.directive(d)
        if k == "elemval" and d > 0:
            self.f("single:ident")      # `<Comp>{y}</Comp>` has a sole identifier child
            return r.pick(["icon", "title"]) + "=" + r.pick(["<b/>", "<>x</>", "<Comp>{y}</Comp>"])
        if k == "only":
            return r.pick(["only", "once"]) + "=" + self.braced(self.expr(0))
        if k == "update":
            return "onUpdate:modelValue={fn}"
        return "id=\"z\""

    def text(self):
        r = self.r
        n = 1 + r.below(6)
        self.f("child:text")
        return "".join(r.pick(TEXT_ALPHA) for _ in range(n))

    def child(self, d):
        r = self.r
        k = r.wpick([(5, "text"), (5, "expr"), (1, "empty"), (1, "comment"), (1, "spread"), (4 if d > 0 else 0, "elem"), (1 if d > 0 else 0, "frag")])
        if k == "text":
            return self.text()
        if k == "expr":
            self.f("child:expr")
            return self.braced(self.expr(d - 1))
        if k == "empty":
            self.f("child:empty")
            return "{}"
        if k == "comment":
            self.f("child:comment")
            return "{/* c */}"
        if k == "spread":
            self.f("child:spread")
            return "{..." + r.pick(["a", "y", "g()"]) + "}"
        if k == "elem":
            self.f("child:elem")
            return self.elem(d - 1)
        self.f("child:frag")
        return "<>" + self.children(d - 1) + "</>"

    def children(self, d):
        r = self.r
        shape = r.wpick([(2, "none"), (8, "single"), (8, "multi")])
        self.f("children:" + shape)
        if shape == "none":
            return ""
        if shape == "single":
            k = r.wpick([(3, "ident"), (3, "call"), (2, "fn"), (2, "obj"), (2, "text"), (2, "elem" if d > 0 else "text"), (3, "any")])
            self.f("single:" + k)
            if k == "ident":
                return self.braced(r.pick(["a", "y", "slots", "foo", "undefined"]))
            nj = getattr(self, "nojsx", False)
            if k == "call":
                return self.braced(r.pick(["g()", "fn(a)", "foo.bar()", "h(1)" if nj else "h(<b/>)"]))
            if k == "fn":
                return self.braced(r.pick(["() => 1", "function () { return 2 }", "(p) => [p, a]" if nj else "(p) => <b>{p}</b>", "async () => 1", "() => [a, g()]"]))
            if k == "obj":
                return self.braced(r.pick(["{ default: () => 1 }", "{ foo, bar: () => 2 }", "{}", "{ ...slots }"]))
            if k == "text":
                return self.text()
            if k == "elem":
                return self.elem(d - 1)
            return self.child(d)
        parts, live = [], 0
        for _ in range(2 + r.below(3)):
            nf = set(self.feat)
            self.feat.discard("child:expr"); self.feat.discard("child:elem"); self.feat.discard("child:frag"); self.feat.discard("child:spread")
            parts.append(self.child(d))
            if {"child:expr", "child:elem", "child:frag", "child:spread"} & self.feat:
                live += 1
            self.feat |= nf
        if live <= 1:
            # empty expressions, comments and text that cleans to "" leave at most one live child:
            # the element may take the single-child path after all
            self.f("single:maybe")
        return "".join(parts)

    def elem(self, d=2):
        r = self.r
        t = self.tag()
        alist = [self.attr(d) for _ in range(r.wpick([(3, 0), (4, 1), (4, 2), (3, 3), (2, 4), (1, 6)]))]
        names = [a.split("=")[0].strip() for a in alist if not a.startswith("{")]
        if len(set(names)) != len(names):
            self.f("attr:repeated")       # the same attribute name written twice on one element
        attrs = " ".join(alist)
        if r.chance(1, 4):
            return f"<{t} {attrs} />"
        return f"<{t} {attrs}>{self.children(d)}</{t}>"

    # ---- module ----------------------------------------------------------------------
    def distractor(self, d):
        r = self.r
        k = r.below(14)
        self.f("distractor")
        if k == 0:
            return f"{r.pick(['a', 'b', 'foo'])} = {self.expr(1)};"
        if k == 1:
            return f"function f{r.below(9)}(p = {self.expr(1)}) {{ return {self.expr(1)} }}"
        if k == 2:
            return f"const k{r.below(99)} = {self.expr(2)};"
        if k == 3:
            return "const _slot = 1, _createVNode = 2, _isSlot = 3, $event = 4;"
        if k == 4:
            return f"class K{r.below(9)} {{ f = {self.expr(1)}; m() {{ return {self.expr(1)} }} static {{ g({self.expr(1)}) }} }}"
        if k == 5:
            return f"for (const i of y) {{ g({self.expr(1)}) }}"
        if k == 6:
            return f"if (y) g({self.expr(1)}); else {{ h({self.expr(1)}) }}"
        if k == 7:
            return f"switch (y) {{ case 1: g({self.expr(1)}); break; default: h({self.expr(1)}) }}"
        if k == 8:
            return f"try {{ g({self.expr(1)}) }} catch (e) {{ h({self.expr(1)}) }} finally {{ }}"
        if k == 9:
            return f"lbl: {{ g({self.expr(1)}); }}"
        if k == 10:
            return f"export const e{r.below(99)} = () => {self.expr(2)};"
        if k == 11:
            return f"g({self.expr(1)}, function () {{ return {self.expr(1)} }}, () => {self.expr(1)});"
        if k == 12:
            return "import { h, createVNode } from 'vue';"
        return f"a = {self.elem(1)};"

    def comment(self):
        r = self.r
        k = r.below(12)
        self.f("comment")
        texts = ["@jsx h", "@jsx custom more words", "@jsxImportSource vue", "@jsxRuntime automatic", "@jsxFrag F",
                 "@jsx", " plain ", "* @jsx  pragma2\n * tail", "@jsx h.x", "@jsxRuntime classic @jsx h", "x@jsx\tq ", "@jsx  z"]
        t = texts[k]
        if r.chance(1, 3) and "\n" not in t:
            return "// " + t + "\n"
        return "/* " + t + " */\n" if r.chance(1, 2) else "/** " + t + " */\n"

    def module(self):
        r = self.r
        parts = []
        if r.chance(1, 6):
            parts.append(self.comment())
        parts.append(PROLOGUE)
        n = 1 + r.below(4)
        for _ in range(n):
            if r.chance(1, 8):
                parts.append(self.comment())
            if r.chance(1, 3):
                parts.append(self.distractor(2) + "\n")
            ctx = r.below(17)
            e = self.expr(3) if r.chance(1, 4) else self.elem(2)
            if r.chance(1, 5):
                e = r.pick(SCOPE_SPECIAL)       # lowerings that need a temporary, a capture or a helper
                # the feature vector must stay sound: these use sole identifier / call children,
                # `on` objects and directives
                self.f("single:maybe", "attrk:on", "attrk:directive", "special")
            self.f("ctx:%d" % ctx)
            if ctx <= 3:
                parts.append(f"const v{len(parts)} = {e};\n")
            elif ctx == 4:
                parts.append(f"export default () => {e};\n" if "export default" not in "".join(parts) else f"({e});\n")
            elif ctx == 5:
                parts.append(f"function w{len(parts)}(q = {e}) {{ if (q) {{ return {self.elem(1)} }} return {e} }}\n")
            elif ctx == 6:
                parts.append(f"class W{len(parts)} {{ field = {e}; render() {{ return {self.elem(1)} }} }}\n")
            elif ctx == 7:
                parts.append(f"g({e}, function () {{ return 1 }});\n")
            elif ctx == 8:
                parts.append(f"a = {e};\n")
            elif ctx == 10:
                parts.append(f"const ab{len(parts)} = (p, fb = {e}) => {{ return p ?? fb }};\n")
            elif ctx == 11:
                parts.append(f"export const ad{len(parts)} = ({{ icon = {e}, label }}, [first = {self.elem(1)}] = []) => {{ const k = 1; return {self.elem(1)} }};\n")
            elif ctx == 12:
                parts.append(f"const o{len(parts)} = {{ m(p = {e}) {{ return p }}, k: function (q = {self.elem(1)}) {{ return q }}, async *g(r = {e}) {{ yield r }} }};\n")
            elif ctx == 13:
                # directive prologues and other JSX-free statements around the JSX of a function body
                parts.append(f"function u{len(parts)}(items) {{ 'use strict'; const k = 1; return {e}; }}\n")
            elif ctx == 14:
                parts.append(f"class U{len(parts)} {{ m() {{ \"use strict\"; return {e} }} static s = () => {{ 'use strict'; return {self.elem(1)} }} }}\n")
            elif ctx == 15:
                parts.append(f"const z{len(parts)} = function () {{ 'use strict'; 'second directive'; if (a) {{ 'in block'; b = {e}; }} return null }};\n")
            elif ctx == 16:
                parts.append(f"const y{len(parts)} = (p) => {{ 'use strict'; foo = {e}; return foo }};\n")
            else:
                parts.append(f"({e});\n")
        # JSX-free code AFTER the JSX statements as well: it must come back untouched
        for _ in range(r.below(3)):
            parts.append(self.distractor(2) + "\n")
        return "".join(parts)

    def options(self):
        r = self.r
        o = {}
        for k in ["transformOn", "optimize", "mergeProps", "enableObjectSlots"]:
            c = r.below(3)
            if c == 0:
                o[k] = True
            elif c == 1:
                o[k] = False
        if r.chance(1, 5):
            o["pragma"] = r.pick(["h", "custom", "_createVNode"])
        if r.chance(1, 3):
            o["customElementPatterns"] = [r.pick(PATTERNS) for _ in range(1 + r.below(2))]
        if r.chance(1, 6):
            o["resolveType"] = True
        return json.dumps(o)


def gen_site_cases(seed, n, start_id=0):
    """one probe element per module: `const __site = <el>;` with JSX-free expression containers"""
    out = []
    for i in range(n):
        g = Gen(Rng(seed * 900007 + i))
        g.nojsx = True
        g.dir_heavy = (i % 4 == 3)     # every fourth probe is mostly directives in all their spellings
        el = g.elem(2) if g.r.chance(9, 10) else "<>" + g.children(2) + "</>"
        if i % 8 == 5:
            # v-model in every host x name form x value form (C05's own quantifier), few distractions
            r = g.r
            host = r.pick(["Comp", "NS.Item", "U", "input", "input type=\"checkbox\"", "input type=\"radio\"", "input type={t}",
                           "select", "textarea", "div", "KeepAlive"])
            tag = host.split(" ")[0]
            ms = []
            for _ in range(1 + r.below(2)):
                name = r.pick(["v-model", "vModel", "v-model:title", "v-model_trim", "v-model_trim_lazy", "v-model:title_trim", "vModel:value_a"])
                target = r.pick(["val", "foo.bar", "a[0]", "props.m", "this.v"])
                value = r.pick(["{T}", "{T}", "[{T}]", "[{T}, 'title']", "[{T}, ['trim']]", "[{T}, 'title', ['trim', 'lazy']]", "[{T}, arg]",
                                "[{T}, 'a-b', []]", "[{T}, null, ['x']]"]).replace("{T}", target)
                ms.append("%s={%s}" % (name, value))
            extra = r.pick(["", "", "id=\"i\"", "class={a}", "onUpdate:modelValue={fn}", "{...y}"])
            g.f("vmodel-matrix")
            el = "<%s %s %s />" % (host, " ".join(ms), extra) if r.chance(1, 2) else "<%s %s %s>{a}</%s>" % (host, " ".join(ms), extra, tag)
        src = PROLOGUE + "const __site = " + el + ";\n"
        out.append({"id": start_id + i, "src": src, "syntax": "jsx", "options": g.options(),
                    "stream": "site", "feat": sorted(g.feat)})
    return out


CTX_PREFIX = [
    "a = 1;\n", "foo = g();\n", "val = a = b;\n", "arg = <Comp>{arg}</Comp>;\n",
    "function r1(U, foo) { return <U>{foo}</U> }\n",
    "function r2(Card, y) { let x; x = y; return <Card title={x}>{x}</Card> }\n",
    "const r3 = (h, g) => <div onClick={h}>{g()}</div>;\n",
    "const other1 = <Comp>{fn()}</Comp>;\n", "const other2 = <NS.Item>{a}</NS.Item>;\n",
    "const other3 = <><b>t</b>{val}</>;\n", "const other4 = <_Fragment>{foo}</_Fragment>;\n",
    "const other5 = <Card title=\"x\" />;\n", "const other6 = <U>{y}</U>;\n",
    "const other7 = <input v-model={val} on={{ click: fn }} />;\n",
    "class K1 { m() { return <Comp>{this.x()}</Comp> } static f = <div>{fn()}</div> }\n",
    "for (const i of []) { b = <span>{i}</span>; }\n",
    "try { a = fn(<Comp>{b}</Comp>, function () { return 1 }) } catch (e) { b = e }\n",
    "label: { foo = () => { a = 2; return <Foo>{a}</Foo> } }\n",
    "import { Fragment as F2, toRef as tr9 } from 'vue';\n", "import { createVNode as _createVNode } from 'vue';\n",
    "export function r4(slots, Comp) { return <Comp v-slots={slots}>{slots}</Comp> }\n",
    "b = <Comp>{b}</Comp>;\n", "function r5() { return [<>{a}</>, <Comp>{g()}</Comp>, <KeepAlive>{b}</KeepAlive>] }\n",
]


CTX_PROBES = [
    "<_Fragment>{foo}t</_Fragment>", "<_Fragment key=\"k\"><b>x</b></_Fragment>", "<_Fragment>root</_Fragment>",
    "<Fragment>x{a}</Fragment>", "<><_Fragment>in</_Fragment></>", "<KeepAlive>{a}</KeepAlive>", "<Comp>{fn()}</Comp>",
    "<Comp>{b}</Comp>", "<div on={{ click: fn }}>t</div>", "<Unknown>{a}</Unknown>", "<input v-model={val} />",
    "<Comp><_Fragment>{a}</_Fragment></Comp>", "<div><_Fragment>t</_Fragment><Comp>{g()}</Comp></div>",
    # names the prefix / suffix statements bind locally (r1(U, foo), r2(Card, y), r4(slots, Comp))
    "<Card title=\"x\">{a}</Card>", "<U>{y}</U>", "<Card />", "<div><U id=\"u\" />{foo}</div>", "<Comp v-slots={slots}>{a}</Comp>",
]


CTX_PREFIX += ["export const g9 = () => { return 1 };\n", "const h9 = (p) => { const k = p; return k };\n",
               "g(() => { foo = 1 });\n"]
# JSX nested in an attribute value (an expression container that is not a child), with a bound identifier inside
CTX_PREFIX += ["const other8 = <Card icon={<Icon>{a}</Icon>}>static</Card>;\n", "const other9 = <Field prefix={<b>{val}</b>} />;\n",
               "function r6(label) { return <Field prefix={<b>{label}</b>}>text</Field> }\n",
               "const other10 = <Card icon={cond ? <Icon>{a}</Icon> : null} {...{ x: <U>{b}</U> }} />;\n"]


def gen_ctx_cases(seed, n, start_id=0):
    """(prefix, JSX statement, suffix) against the same statement alone: `src` is the composed
    module, `src_alt` the module with the statement only"""
    out = []
    # deterministic part: a probe that requests a declaration (a temporary, a captured copy, a
    # helper) beside every context statement, before it and after it
    for probe in ["<Comp>{fn()}</Comp>", "<_Fragment>{foo}t</_Fragment>", "<Card title=\"x\">{a}</Card>"]:
        for other in CTX_PREFIX:
            for before in (True, False):
                site = "const __site = " + probe + ";\n"
                src = PROLOGUE + (other + site if before else site + other)
                out.append({"id": start_id + len(out), "src": src, "src_alt": PROLOGUE + site, "syntax": "jsx",
                            "options": json.dumps({"optimize": len(out) % 2 == 0}), "stream": "ctx", "keep_json": True,
                            "feat": ["ctxpair"]})
    start_id += len(out)
    for i in range(n):
        g = Gen(Rng(seed * 700001 + i))
        g.nojsx = True
        r = g.r
        el = g.elem(2) if r.chance(9, 10) else "<>" + g.children(2) + "</>"
        if r.chance(1, 6):
            # probes whose lowering touches module-wide state: the user's alias of Fragment, the
            # Fragment / isSlot / transformOn / resolveComponent helpers, temporaries, directives
            el = r.pick(CTX_PROBES)
            g.f("ctxprobe")
        site = "const __site = " + el + ";\n"
        pre = "".join(r.pick(CTX_PREFIX) for _ in range(r.below(4)))
        suf = "".join(r.pick(CTX_PREFIX) for _ in range(r.below(3)))
        if not pre and not suf:
            pre = r.pick(CTX_PREFIX)
        opts = json.loads(g.options())
        opts.pop("resolveType", None)
        for f in ("pre:%d" % pre.count("\n"), "suf:%d" % suf.count("\n")):
            g.f(f)
        out.append({"id": start_id + i, "src": PROLOGUE + pre + site + suf, "src_alt": PROLOGUE + site,
                    "syntax": "jsx", "options": json.dumps(opts), "stream": "ctx", "keep_json": True, "feat": sorted(g.feat)})
    return out


# C06: every syntactic context a JSX expression can occupy; {E} / {F} are JSX expressions
SCOPE_CTX = [
    "const v = {E};\n", "export default () => {E};\n", "function f1(q = {E}) { return q }\n",
    "function f2() { if (a) { return {E} } return {F} }\n",
    "class W1 { field = {E}; get acc() { return {F} } set acc(v) { b = {E} } static s = {F}; m() { return {E} } }\n",
    "g({E}, function () { return 1 });\n", "a = {E};\n", "for (const i of [1]) { b = {E}; }\n",
    "while (a) { { const z = {E}; } break }\n", "const f3 = (p) => {E};\n", "const f4 = (p = {E}) => p;\n",
    "const o1 = { m() { return {E} }, get g() { return {F} }, k: () => {E} };\n",
    "try { b = {E} } catch (e) { b = {F} } finally { }\n", "label: { b = {E}; }\n",
    "switch (a) { case 1: b = {E}; break; default: { b = {F} } }\n",
    "export const w3 = {E}, w4 = {F};\n", "async function af() { return await {E} }\n",
    "function* gf() { yield {E} }\n", "const cond = a ? {E} : {F};\n", "b = a && {E};\n",
    "const nest = () => () => { const q = {E}; return function () { return {F} } };\n",
    "if (a) b = {E}; else b = {F};\n", "do { b = {E} } while (0);\n", "({E});\n",
    "const arr = [{E}, () => {F}];\n", "foo = {E};\nval = {F};\n",
    "class W2 extends Foo { constructor() { super(); this.x = {E} } static { b = {F} } }\n",
    # a component whose only child is the variable being assigned: the child is captured in a copy
    "const f10 = (p, fb = {E}) => { return p ?? fb };\n", "const f11 = ({ icon = {E}, label }) => { const k = 1; return {F} };\n",
    "const f5 = (a) => (a = <Comp>{a}</Comp>);\n", "const f6 = (val) => { val = <Comp>{val}</Comp>; return {E} };\n",
    "function f7(foo) { return foo = <NS.Item>{foo}</NS.Item> }\n", "b = <Comp>{b}</Comp>;\n",
    "class W3 { m(a) { a = <Comp>{a}</Comp>; return a } }\n", "const f8 = (q = (b = <Comp>{b}</Comp>)) => q;\n",
    "const f9 = (a) => [a = <Comp>{a}</Comp>, {E}];\n", "for (let a = 0; a < 1; a++) a = <Comp>{a}</Comp>;\n",
]
SCOPE_SPECIAL = [
    "<Comp>{fn()}</Comp>", "<Comp>{a}</Comp>", "<NS.Item>{foo}</NS.Item>", "<Comp>{g(1)}{h()}</Comp>", "<>{a}<b>t</b></>",
    "<div on={{ click: fn }} />", "<input v-model={val} />", "<Comp v-model={foo.bar} />", "<div v-show={a} v-custom={b} />",
    "<U>{y}</U>", "<Comp>{() => <b>{fn()}</b>}</Comp>", "<Comp>{fn(<i>{g()}</i>)}</Comp>", "<Foo>{val}</Foo>",
]
COLLIDE = ["", "", "let _slot = 0, _isSlot = 1;\n", "const _createVNode = 2; function _a() {}\n",
           "var _Fragment2 = 3, _slot2 = 4, _foo = 5, _val = 6;\n", "function _createTextVNode() {} const _mergeProps = 0;\n"]


def gen_scope_cases(seed, n, start_id=0):
    out = []
    for i in range(n):
        g = Gen(Rng(seed * 500009 + i))
        r = g.r
        def ex():
            return r.pick(SCOPE_SPECIAL) if r.chance(1, 2) else g.elem(2)
        parts = [PROLOGUE, r.pick(COLLIDE)]
        # every third module is a single statement with a single special element: a helper or a
        # temporary is then the ONLY thing the transform adds
        single = (i % 3 == 2)
        if single:
            t = r.pick(SCOPE_CTX)
            g.f("sctx:%d" % SCOPE_CTX.index(t))
            parts.append(t.replace("{E}", r.pick(SCOPE_SPECIAL)).replace("{F}", "null"))
        for _ in range(0 if single else 1 + r.below(4)):
            t = r.pick(SCOPE_CTX)
            g.f("sctx:%d" % SCOPE_CTX.index(t))
            parts.append(t.replace("{E}", ex()).replace("{F}", ex()))
        opts = json.loads(g.options())
        opts.pop("resolveType", None)
        out.append({"id": start_id + i, "src": "".join(parts), "syntax": "jsx", "options": json.dumps(opts),
                    "stream": "scope", "keep_json": True, "feat": sorted(g.feat)})
    return out


def gen_matrix_cases(start_id=0):
    """exhaustive small matrices (deterministic): v-model hosts x names x values, directive names x values"""
    out = []
    def add(el, k):
        opts = [{}, {"mergeProps": False, "optimize": True}, {"optimize": True}][k % 3]
        out.append({"id": start_id + len(out), "src": PROLOGUE + "const __site = " + el + ";\n", "syntax": "jsx",
                    "options": json.dumps(opts), "stream": "site", "feat": ["matrix"]})
    k = 0
    for ty in ['type="checkbox"', 'type="radio"', 'type="text"', 'type={t}', 'type={"checkbox"}', "type={'radio'}", "type", 'type="CHECKBOX"']:
        for host in ["input", "Comp", "textarea"]:
            add("<%s %s v-model={val} />" % (host, ty), k); k += 1
            add("<%s v-model={[val, ['lazy']]} %s />" % (host, ty), k); k += 1
    for host in ["Comp", "input", "select"]:
        for name in ["v-model", "vModel", "v-model:title", "v-model_trim", "v-model_trim_lazy", "v-model:title_trim", "vModel:value_a"]:
            for value in ["val", "[val]", "[foo.bar, 'title']", "[val, ['trim']]", "[val, 'title', ['trim', 'lazy']]", "[val, arg]",
                          "[val, 'a-b', []]", "[val, null, ['x']]", "[a[0], 'title', y]"]:
                add("<%s %s={%s} id=\"i\" />" % (host, name, value), k); k += 1
    # v-models: the same-order sequence of the v-model attributes it lists (static and computed arguments)
    for host in ["Comp", "input", "NS.Item"]:
        for value in ["[[val]]", "[[val, 'title']]", "[[val], [foo.bar, 'title']]", "[[val, arg]]",
                      "[[foo.bar, 'first'], [a[0], arg, ['trim']]]", "[[val], [b, arg]]", "[[val, ['lazy']], [b, 'x', ['trim']]]",
                      "[[val, arg, ['m']], [b]]", "[[val, foo.bar], [b, 'title'], [a[0], arg]]"]:
            add("<%s v-models={%s} id=\"i\" />" % (host, value), k); k += 1
            add("<%s title=\"t\" v-models={%s} onFoo={fn} />" % (host, value), k); k += 1
    # v-slots beside a sole identifier / call child, and without any child
    for host in ["Comp", "NS.Item", "Unknown", "div"]:
        for vs in ["slots", "{ a: () => 1 }", "{ ...slots }", "{ a: fn, b: () => [a] }", "{ default: fn, header: a }",
                   "{ 'default': fn }", "{ a: fn, a: b, ['default']: fn }"]:
            for ch in ["{foo}", "{fn()}", "", "{}", "{/* c */}", " \n ", "{a}{b}", "t", "{() => 1}", "{{ header: b }}",
                       "{{ a: fn, default: b }}", "<b/>"]:
                add("<%s v-slots={%s}>%s</%s>" % (host, vs, ch, host), k); k += 1
        add("<%s v-slots={{ a: () => 1 }} />" % host, k); k += 1
    # directive names, arguments and modifiers outside ASCII
    for name in ["v-\u6743\u9650", "v-\u6743\u9650:\u83dc\u5355_\u4e25\u683c", "v-\u00e9ditable", "v-custom:\u00e9_\u00fc", "v-\u00df_m"]:
        for host in ["button", "Comp"]:
            add("<%s %s={val} />" % (host, name), k); k += 1
            add("<%s %s />" % (host, name), k); k += 1
    # directive modifiers that are not identifiers
    for name in ["v-custom_2xl", "vCus_300ms_lazy", "v-show_05", "v-custom:arg_1st", "v-model_2dp", "v-custom_500"]:
        for host in ["input", "Comp"]:
            add("<%s %s={val} />" % (host, name), k); k += 1
    for value in ["[val, ['2xl']]", "[val, arg, ['300ms', 'a']]", "[val, ['500', '05']]"]:
        for host in ["input", "Comp", "div"]:
            add("<%s v-custom={%s} />" % (host, value), k); k += 1
            add("<%s v-model={%s} />" % (host, value), k); k += 1
    # repeated class / style / listeners closed by a spread; a lone spread child; conditionals with constant branches
    for pre in ['class="a" class={b}', 'style="color: red" style={foo.bar}', "onClick={fn} onClick={g()}",
                'class="a" class={b} style="color: red" style={foo.bar}']:
        for host in ["div", "Comp"]:
            add("<%s %s {...y} id=\"c\" />" % (host, pre), k); k += 1
            add("<%s title=\"t\" %s {...foo.bar} />" % (host, pre), k); k += 1
    for host in ["Comp", "NS.Item", "Unknown", "div", "ul", "KeepAlive"]:
        for ch in ["{...fn()}", "{...foo}", "{/* c */}{...g()}", "{...foo.bar}", " \n {...val}\n "]:
            add("<%s>%s</%s>" % (host, ch, host), k); k += 1
    for host in ["li", "Comp"]:
        for at in ["class={a ? 'tab on' : 'tab'} id={b}", "kind={a ? 'error' : 'ok'} count={b}", "ref={foo} style={a ? 'x' : 'y'}",
                   "tabindex={-1} id={b}", "colspan={1 + 1} title={a}", "value={(0)} class={b}", "data-x={a ? 1 : b} id={val}"]:
            add("<%s %s>x</%s>" % (host, at, host), k); k += 1
    # attributes written after v-models keep their places
    for vm in ['[[val, "a"], [b, "b"]]', '[[val, "a"]]', "[[val]]"]:
        add("<Comp first={fn()} v-models={%s} second={g()} third={h()} fourth={fn(a)} />" % vm, k); k += 1
        add("<Comp v-models={%s} {...g()} onChange={h()} />" % vm, k); k += 1
        add("<input id={fn()} v-models={%s} title={g()} {...foo.bar} class={h()} />" % vm, k); k += 1
    for host in ["div", "Comp"]:
        for name in ["v-custom", "vCus", "v-custom:arg", "v-custom_m", "v-custom:arg_m_n", "v-validate", "v-show", "vShow:x_y",
                     "vXAxis", "v-BToggle:left_once", "vUIState_m"]:
            for value in ["", "=\"str\"", "={a}", "={[a]}", "={[a, b]}", "={[a, ['m']]}", "={[a, b, ['m', 'n']]}", "={[a, 'lit', ['m']]}"]:
                add("<%s %s%s title=\"t\">x</%s>" % (host, name, value, host), k); k += 1
    # an attribute written twice: class / style / listeners are merged in source order
    for key, vals in [("class", ['"x y"', "{fn()}", "{[g(), h(1)]}", "{{ a: b }}"]), ("style", ['"color: red"', "{fn()}", "{[s1, g()]}", "{{ color: c }}"]),
                      ("onClick", ["{fn}", "{g()}", "{[fn, h]}", "{() => 1}"])]:
        for v1 in vals:
            for v2 in vals:
                add("<div %s=%s id={foo.bar} %s=%s />" % (key, v1, key, v2), k); k += 1
        add("<Comp %s=%s %s=%s %s=%s />" % (key, vals[1], key, vals[2], key, vals[0]), k); k += 1
    for host in ["div", "Comp"]:
        for name in ["v-html", "v-text", "vHtml", "v-html:arg_m"]:
            for value in ["=\"s\"", "={a}", "={[a]}", "={[a, b]}"]:
                add("<%s %s%s />" % (host, name, value), k); k += 1
    return out


def gen_elem_cases(seed, n, start_id=0):
    out = []
    for i in range(n):
        g = Gen(Rng(seed * 1000003 + i))
        src = g.module()
        out.append({"id": start_id + i, "src": src, "syntax": "jsx", "options": g.options(),
                    "stream": "module", "feat": sorted(g.feat)})
    return out


# ---------------------------------------------------------------------------------------
# resolveType stream: defineComponent calls with typed setup functions
ATOM_TYPES = ["string", "number", "boolean", "object", "bigint", "symbol", "null", "any", "unknown", "undefined", "void", "never",
              "'lit'", "1", "true", "1n", "`t${string}`", "(() => void)", "(new () => Foo)", "string[]", "[string, number]",
              "{ a: 1 }", "{}", "{ (): void }", "Date", "Map<string, number>", "Set<string>", "WeakMap<object, any>", "Promise<string>",
              "RegExp", "Error", "Array<string>", "Function", "Object", "Record<string, any>", "Partial<{ a: 1 }>", "Readonly<{ a: 1 }>",
              "Uppercase<'a'>", "Parameters<typeof fn>", "InstanceType<typeof Foo>", "NonNullable<string | null>",
              "Exclude<string | number, number>", "Extract<string | number, number>", "Foo", "Imported", "NS.T", "keyof Foo", "typeof fn",
              "T0", "I0", "Arr0[number]", "Tup0[0]", "Tup0[number]", "Obj0['k']", "Obj0[string]", "Obj0['k' | 'j']", "Array<string>[number]",
              "Extract<string | string[], string | object>", "Extract<Date | number, object>", "Extract<number | Map<string, number>, object | number>",
              "Exclude<string | string[], number>", "NonNullable<string[] | null>", "null | NonNullable<string | undefined>",
              "(Date | null) | NonNullable<number | null>",
              # Boolean / String order matters to Vue's boolean casting: null / undefined in every position
              "NonNullable<null | boolean | string>", "NonNullable<undefined | string | boolean | number>", "NonNullable<BSN0>",
              "NonNullable<boolean | null | string | Date>", "boolean | string", "string | boolean",
              "(null | boolean) | NonNullable<null | string | Date>", "NonNullable<null | 'a' | true | 1>",
              "I0['a']", "J1['a']", "J1['b']", "J1['zz']", "I0[number]", "J1['a' | 'b']",
              # indexed accesses the resolver cannot see through: nested, on a `typeof`, on an array's property
              "Obj1['k']['size']", "Obj1['k']['n']['length']", "(typeof SIZES)[number]", "string[]['length']",
              # indexed accesses that select a method signature (a function value)
              "Obj0['m']", "Obj0['m' | 'j']", "I2m['onSave']", "I2m['onSave' | 'label']"]
# declaration order of Boolean and String (Vue casts `""` / the hyphenated key to true only when Boolean comes first)
ATOM_ORDER = {"NonNullable<null | boolean | string>": "Boolean<String", "NonNullable<undefined | string | boolean | number>": "String<Boolean",
              "NonNullable<BSN0>": "Boolean<String", "NonNullable<boolean | null | string | Date>": "Boolean<String",
              "boolean | string": "Boolean<String", "string | boolean": "String<Boolean",
              "(null | boolean) | NonNullable<null | string | Date>": "Boolean<String", "NonNullable<null | 'a' | true | 1>": "String<Boolean"}
OBJ = {"object", "array", "date", "map", "set", "weakmap", "promise", "regexp", "error"}
# JavaScript value kinds a type can have; "ANY" = anything; None = outside the property's grammar
ATOM_KINDS = {
    "string": {"string"}, "number": {"number"}, "boolean": {"boolean"}, "object": {"object", "array", "date", "map", "set", "regexp", "error"},
    "bigint": {"bigint"}, "symbol": {"symbol"}, "null": {"null"}, "any": "ANY", "unknown": "ANY", "undefined": {"undefined"},
    "void": {"undefined"}, "never": set(), "'lit'": {"string"}, "1": {"number"}, "true": {"boolean"}, "1n": {"bigint"},
    "`t${string}`": {"string"}, "(() => void)": {"function"}, "(new () => Foo)": {"function"}, "string[]": {"array"},
    "[string, number]": {"array"}, "{ a: 1 }": {"object"}, "{}": "NONNULL", "{ (): void }": {"function"}, "Date": {"date"},
    "Map<string, number>": {"map"}, "Set<string>": {"set"}, "WeakMap<object, any>": {"weakmap"}, "Promise<string>": {"promise"},
    "RegExp": {"regexp"}, "Error": {"error"}, "Array<string>": {"array"}, "Function": {"function"}, "Object": None,
    "Record<string, any>": {"object"}, "Partial<{ a: 1 }>": {"object"}, "Readonly<{ a: 1 }>": {"object"}, "Uppercase<'a'>": {"string"},
    "Parameters<typeof fn>": {"array"}, "InstanceType<typeof Foo>": {"object"}, "NonNullable<string | null>": {"string"},
    "Exclude<string | number, number>": {"string"}, "Extract<string | number, number>": {"number"}, "Foo": {"object"},
    "Imported": None, "NS.T": None, "keyof Foo": None, "typeof fn": None, "T0": {"string", "number"}, "I0": {"object", "function"},
    "Arr0[number]": {"boolean"}, "Tup0[0]": {"string"}, "Tup0[number]": {"string", "number"}, "Obj0['k']": {"date"},
    "Obj0[string]": "ANY", "Obj0['k' | 'j']": {"date", "number"}, "Array<string>[number]": {"string"},
    # indexed access on an interface: own key, inherited key, absent key (not TypeScript), number index
    "I0['a']": {"number"}, "J1['a']": {"number"}, "J1['b']": {"number"}, "J1['zz']": None, "I0[number]": None,
    "J1['a' | 'b']": {"number"},
    "Obj1['k']['size']": {"string"}, "Obj1['k']['n']['length']": {"number"}, "(typeof SIZES)[number]": {"string"},
    "string[]['length']": {"number"},
    "Obj0['m']": {"function"}, "Obj0['m' | 'j']": {"function", "number"}, "I2m['onSave']": {"function"},
    "I2m['onSave' | 'label']": {"function", "string"},
    "Extract<string | string[], string | object>": {"string", "array"}, "Extract<Date | number, object>": {"date"},
    "Extract<number | Map<string, number>, object | number>": {"number", "map"},
    "Exclude<string | string[], number>": {"string", "array"}, "NonNullable<string[] | null>": {"array"},
    "NonNullable<null | boolean | string>": {"boolean", "string"}, "NonNullable<undefined | string | boolean | number>": {"string", "boolean", "number"},
    "NonNullable<BSN0>": {"boolean", "string", "number"}, "NonNullable<boolean | null | string | Date>": {"boolean", "string", "date"},
    "boolean | string": {"boolean", "string"}, "string | boolean": {"string", "boolean"},
    "(null | boolean) | NonNullable<null | string | Date>": {"null", "boolean", "string", "date"},
    "NonNullable<null | 'a' | true | 1>": {"string", "boolean", "number"},
    "null | NonNullable<string | undefined>": {"null", "string"}, "(Date | null) | NonNullable<number | null>": {"date", "null", "number"},
}


def kinds_union(a, b):
    if a is None or b is None:
        return None
    if a == "ANY" or b == "ANY":
        return "ANY"
    if a == "NONNULL" or b == "NONNULL":
        return "ANY" if (a != b and ("null" in (a if a != "NONNULL" else b) or "undefined" in (a if a != "NONNULL" else b))) else "NONNULL"
    return set(a) | set(b)


TYPE_PRELUDE = ("class Foo {}\nfunction fn(a: number, b: string) {}\ntype T0 = string | number;\ninterface I0 { a: 1; (): void }\ninterface J1 extends I0 { b: 2 }\n"
                "type Arr0 = boolean[];\ntype Tup0 = [string, number];\ntype Obj0 = { k: Date; j: number; m(): void; [x: string]: any };\n"
                "type Obj1 = { k: { size: 'sm' | 'lg'; n: number[] } };\nconst SIZES = ['sm', 'md'] as const;\n"
                "interface I2m { onSave(payload: string): void; onCancel(): void; label: string }\ntype BSN0 = null | boolean | string | number;\n")
PROP_KEYS = ["foo", "bar", "'baz-q'", "qux", "msg", "'onUpdate:x'", "count", "1", "'label'", "'size'"]


class TGen(Gen):
    def __init__(self, rng):
        super().__init__(rng)
        self.n = 0
        self.pre = []
        self.post = []

    def fresh(self, p):
        self.n += 1
        return "%s%d" % (p, self.n)

    def decl(self, text):
        r = self.r
        if r.chance(1, 4):
            text = "export " + text
            self.f("decl:export")
        if r.chance(1, 3):
            self.post.append(text); self.f("decl:after")
        else:
            self.pre.append(text); self.f("decl:before")

    def atype(self, d=1):
        """(type text, kinds, tags): tags name the known-finding ingredients the type contains"""
        r = self.r
        k = r.below(10)
        if d > 0 and k == 0:
            a, ka, ta = self.atype(d - 1); b, kb, tb = self.atype(d - 1)
            self.f("atype:union")
            return a + " | " + b, kinds_union(ka, kb), ta | tb | {"union"}
        if d > 0 and k == 1:
            a, ka, ta = self.atype(d - 1)
            return "(" + a + ")", ka, ta
        if d > 0 and k == 2:
            nm = self.fresh("AT")
            a, ka, ta = self.atype(d - 1)
            self.decl("type %s = %s;" % (nm, a))
            self.f("atype:alias")
            return nm, ka, ta
        if d > 0 and k == 3:
            a, ka, ta = self.atype(d - 1)
            self.f("atype:inter")
            if ka is None:
                return a + " & {}", None, ta
            if ka in ("ANY", "NONNULL"):
                return a + " & {}", "NONNULL", ta
            return a + " & {}", set(ka) - {"null", "undefined"}, ta
        t = r.pick(ATOM_TYPES)
        self.f("atom:" + t)
        tags = set()
        if t == "1n":
            tags.add("bigint_lit")
        if t in ("any", "unknown", "Obj0[string]"):
            tags.add("any")
        if t == "{}":
            tags.add("empty_obj")
        if t in ("J1['a']", "J1['a' | 'b']"):
            tags.add("inherited_index")
        if t in ("Obj1['k']['size']", "Obj1['k']['n']['length']", "(typeof SIZES)[number]", "string[]['length']"):
            tags.add("unres_index")
        return t, ATOM_KINDS.get(t), tags

    def members(self, M):
        out = []
        for (key, opt, ty, kind, *_rest) in M:
            q = "?" if opt else ""
            if kind == "method":
                out.append("%s%s(): void" % (key, q))
            elif kind == "getter":
                out.append("get %s(): %s" % (key, ty))
            else:
                out.append("%s%s: %s" % (key, q, ty))
        return "; ".join(out)

    def split(self, M):
        r = self.r
        if len(M) < 2:
            return M, []
        k = 1 + r.below(len(M) - 1)
        return M[:k], M[k:]

    def enc(self, M, d):
        """a type expression denoting exactly the prop map M"""
        r = self.r
        ops = ["lit"] if d <= 0 else ["lit", "alias", "iface", "extends", "extends_alias", "merge", "merge_extends", "inter", "paren", "partial", "partial", "required", "required",
                                      "pick", "pick", "omit", "omit", "inter_omit", "union_dup", "index", "chain"]
        op = r.pick(ops)
        force = getattr(self, "force_op", None)
        if force and d > 0:
            op = force
            self.force_op = None
        plain = [m for m in M if m[3] != "getter"]
        if op == "partial" and not (M and all(m[1] for m in plain)):
            op = "lit"
        if op == "required" and not (M and all(not m[1] for m in M)):
            op = "lit"
        if op == "inter_omit" and not M:
            op = "lit"
        if op == "union_dup" and len([m for m in M if m[1] and m[3] == "prop"]) < 2:
            op = "lit"
        if op in ("pick", "omit", "inter_omit") and any(m[0].isdigit() for m in M):
            op = "lit"                    # `'1'` is not a key of `{ 1: … }` in TypeScript
        self.f("enc:" + op)
        if op == "lit":
            return "{ " + self.members(M) + " }"
        if op == "alias":
            nm = self.fresh("A")
            self.decl("type %s = %s;" % (nm, self.enc(M, d - 1)))
            return nm
        if op == "chain":
            a, b = self.fresh("A"), self.fresh("A")
            self.decl("type %s = %s;" % (a, b))
            self.decl("type %s = %s;" % (b, self.enc(M, d - 1)))
            return a
        if op == "iface":
            nm = self.fresh("I")
            self.decl("interface %s { %s }" % (nm, self.members(M)))
            return nm
        if op == "extends":
            m1, m2 = self.split(M)
            a, b = self.fresh("I"), self.fresh("I")
            self.decl("interface %s { %s }" % (b, self.members(m2)))
            self.decl("interface %s extends %s { %s }" % (a, b, self.members(m1)))
            return a
        if op == "extends_alias":
            m1, m2 = self.split(M)
            a, b = self.fresh("I"), self.fresh("A")
            self.decl("type %s = { %s };" % (b, self.members(m2)))
            self.decl("interface %s extends %s { %s }" % (a, b, self.members(m1)))
            return a
        if op == "merge_extends":
            m1, m2 = self.split(M)
            m1a, m1b = self.split(m1)
            nm, b = self.fresh("I"), self.fresh("I")
            self.decl("interface %s { %s }" % (b, self.members(m2)))
            self.decl("interface %s { %s }" % (nm, self.members(m1a)))
            self.decl("interface %s extends %s { %s }" % (nm, b, self.members(m1b)))
            return nm
        if op == "merge":
            m1, m2 = self.split(M)
            nm = self.fresh("I")
            self.decl("interface %s { %s }" % (nm, self.members(m1)))
            self.decl("interface %s { %s }" % (nm, self.members(m2)))
            return nm
        if op == "inter":
            m1, m2 = self.split(M)
            return self.enc(m1, d - 1) + " & " + self.enc(m2, d - 1)
        if op == "paren":
            return "(" + self.enc(M, d - 1) + ")"
        if op == "partial":
            return "Partial<" + self.enc([(m[0], r.chance(1, 2)) + tuple(m[2:]) for m in M], d - 1) + ">"
        if op == "required":
            return "Required<" + self.enc([(m[0], r.chance(1, 2)) + tuple(m[2:]) for m in M], d - 1) + ">"
        extra = [("zextra", False, "number", "prop", {"number"}, []), ("'z-other'", True, "string", "prop", {"string"}, [])]
        if op == "pick":
            if not M:
                return "{ }"
            keys = " | ".join("'%s'" % m[0].strip("'") for m in M)
            if r.chance(1, 3):
                kn = self.fresh("K"); self.decl("type %s = %s;" % (kn, keys)); keys = kn
            return "Pick<%s, %s>" % (self.enc(M + extra, d - 1), keys)
        if op == "omit":
            return "Omit<%s, 'zextra' | 'z-other'>" % self.enc(M + extra, d - 1)
        if op == "union_dup":
            # a discriminated union: each of two optional props is required in one operand and
            # `?: never` in the other, so neither is required of the whole
            opt = [m for m in M if m[1] and m[3] == "prop"][:2]
            rest = [m for m in M if m not in opt]
            (k1, _, t1, *_a), (k2, _, t2, *_b) = opt
            u = "({ %s: %s; %s?: never } | { %s: %s; %s?: never })" % (k1, t1, k2, k2, t2, k1)
            return u if not rest else self.enc(rest, d - 1) + " & " + u
        if op == "inter_omit":
            # a key declared by the operand to the LEFT of an Omit<> that omits the same key from
            # another type: the left declaration stands
            m1, m2 = self.split(M)
            k0 = m1[0][0]
            shadow = [(k0, True, "symbol", "prop", {"symbol"}, [])]
            left = "{ " + self.members(m1) + " }"
            right = "Omit<%s, '%s'>" % (self.enc(shadow + m2, d - 1), k0.strip("'"))
            return left + " & " + right
        if op == "index":
            nm = self.fresh("W")
            if r.chance(1, 2):
                self.decl("type %s = { k: %s; other: number };" % (nm, self.enc(M, d - 1)))
            else:
                self.decl("interface %s { k: %s; other: number }" % (nm, self.enc(M, d - 1)))
            return "%s['k']" % nm
        return "{ " + self.members(M) + " }"

    def prop_map(self):
        r = self.r
        n = r.below(5)
        keys = list(PROP_KEYS)
        M = []
        focus = getattr(self, "focus_ops", False)
        if focus or getattr(self, "focus_dup", False):
            n = 2 + r.below(3)
        for j in range(n):
            k = keys.pop(r.below(len(keys)))
            kind = r.wpick([(6, "prop"), (2, "method"), (1, "getter")])
            if focus and j == 0:
                kind = "method"
            tt, kk, tg = self.atype(1)
            if getattr(self, "focus_defaults", False):
                # function types alone and inside unions, in both orders: only `type: Function` alone
                # makes Vue keep a function default as it is
                kind = "prop"
                tt, kk = r.pick([("((n: number) => string) | string", {"function", "string"}), ("string | (() => void)", {"function", "string"}),
                                 ("(() => void)", {"function"}), ("Function", {"function"}), ("(() => void) | (new () => Foo)", {"function"}),
                                 ("number | Function | string", {"function", "number", "string"})])
                tg = set()
            opt = r.chance(1, 2) if kind != "getter" else False
            if getattr(self, "focus_dup", False):
                kind = "prop"
                opt = j < 2 or r.chance(1, 2)
            if focus:
                # Partial<> needs an all-optional map, Required<> an all-required one
                opt = (self.force_op == "partial") if kind != "getter" else False
            M.append((k, opt, tt, kind, kk if kind != "method" else {"function"}, sorted(tg)))
        return M

    def events(self):
        """(type text, event names)"""
        r = self.r
        names = []
        pool = ["change", "update:modelValue", "before-close", "a", "b"]
        for _ in range(r.below(4)):
            names.append(pool.pop(r.below(len(pool))))
        form = r.below(10)
        if getattr(self, "focus_overload", False):
            # the same event declared several times, among several others
            names = ["change", "update:modelValue", "before-close", "a", "b"][:3 + r.below(3)]
            form = r.pick([2, 6])
        self.f("emits:%d" % form)
        if not names:
            return r.pick(["{}", "() => void"]), []
        if len(names) >= 2 and form in (2, 6) and (r.chance(1, 2) or getattr(self, "focus_overload", False)):
            # overloads: the same event declared twice with other payloads (the set is what counts)
            names = names + [names[0]]
            self.f("emits:overload")
        lits = " | ".join("'%s'" % n for n in names)
        if form == 0:
            return "(e: %s, ...args: any[]) => void" % lits, names
        if form == 1:
            return " | ".join("((e: '%s', v: number) => void)" % n for n in names), names
        if form == 2:
            return "{ " + "; ".join("(e: '%s'): void" % n for n in names) + " }", names
        if form == 3:
            nm = self.fresh("E"); b = self.fresh("E")
            self.decl("interface %s { (e: '%s'): void }" % (b, names[0]))
            self.decl("interface %s extends %s { %s }" % (nm, b, "; ".join("(e: '%s'): void" % n for n in names[1:])))
            return nm, names[1:] + names[:1]
        if form == 4:
            return "{ " + "; ".join("'%s': [v: number]" % n for n in names) + " }", names
        if form in (7, 8):
            # an interface whose parent is a type alias of an object type (call signatures / property syntax)
            nm = self.fresh("E"); b = self.fresh("E")
            if form == 7:
                self.decl("type %s = { (e: '%s'): void };" % (b, names[0]))
                self.decl("interface %s extends %s { %s }" % (nm, b, "; ".join("(e: '%s'): void" % n for n in names[1:])))
            else:
                self.decl("type %s = { '%s': [v: number] };" % (b, names[0]))
                self.decl("interface %s extends %s { %s }" % (nm, b, "; ".join("'%s': []" % n for n in names[1:])))
            return nm, names[1:] + names[:1]
        if form == 9 and len(names) >= 2:
            # an interface written in two parts, the LATER part naming a parent
            nm = self.fresh("E"); b = self.fresh("E")
            self.decl("interface %s { (e: '%s'): void }" % (b, names[1]))
            self.decl("interface %s { (e: '%s'): void }" % (nm, names[0]))
            self.decl("interface %s extends %s { %s }" % (nm, b, "; ".join("(e: '%s'): void" % n for n in names[2:])))
            return nm, names
        if form == 5:
            ev = self.fresh("Ev"); self.decl("type %s = %s;" % (ev, lits))
            return "(e: %s) => void" % ev, names
        nm = self.fresh("E")
        self.decl("type %s = { %s } & { %s };" % (nm, "(e: '%s'): void" % names[0], "; ".join("(e: '%s'): void" % n for n in names[1:])))
        return nm, names

    def defaults(self, M):
        """(text, form, {key: (kind-of-default, written text)})"""
        r = self.r
        form = r.below(8)
        fd = getattr(self, "focus_defaults", False)
        if fd:
            form = 5
        self.f("defaults:%d" % form)
        self.default_info = {"form": "none", "per_key": {}}
        if form <= 1 or not M:
            return ""
        if form == 2:
            self.default_info = {"form": "dynamic", "per_key": {}}
            return " = dflt"
        items = []
        per = {}
        for m in M:
            k = m[0]
            kk = k.strip("'")
            c = r.below(9)
            if k.startswith("'") and kk.isidentifier() and r.chance(1, 2):
                c = 7
            if fd:
                c = r.pick([2, 2, 3, 1])
            if c == 0:
                continue
            if c == 1:
                v = r.pick(["1", "'s'", "true", "null"])
                items.append("%s: %s" % (k, v)); per[kk] = ["literal", v]
            elif c == 2:
                v = r.pick(["fn()", "[1]", "{ a: 1 }", "() => 1", "function () { return 2 }", "foo.bar", "undefined"])
                items.append("%s: %s" % (k, v)); per[kk] = ["fnvalue" if v.startswith("()") or v.startswith("function") else "expr", v]
            elif c == 3 and k.isidentifier():
                items.append(k); per[kk] = ["shorthand", k]
            elif c == 4:
                items.append("get %s() { return 1 }" % k); per[kk] = ["getter", ""]
            elif c == 5:
                items.append("%s() { return 1 }" % k); per[kk] = ["method", ""]
            elif c == 6:
                items.append("async %s() { return 1 }" % k); per[kk] = ["method", "async"]
            elif c == 7:
                if k.isidentifier():
                    items.append("'%s': 1" % kk)
                elif kk.isidentifier():
                    items.append("%s: 1" % kk)
                else:
                    items.append("['%s']: 1" % kk)
                per[kk] = ["literal", "1"]
            else:
                v = r.pick(["4", "fn()"])
                items.append("['%s']: %s" % (kk, v)); per[kk] = ["literal" if v == "4" else "expr", v]
        if r.chance(1, 5):
            items.append("extra: 1")
        self.default_info = {"form": "static", "per_key": per}
        if form == 3:
            items.append("...dflt"); self.default_info["form"] = "dynamic"
        if form == 4:
            items.append(r.pick(["[dyn]: 1", "[`pre${dyn}`]: 1", "[`${dyn}`]: 2"])); self.default_info["form"] = "dynamic"
        return " = { " + ", ".join(items) + " }"

    def options_arg(self):
        r = self.r
        k = r.below(12)
        self.f("optarg:%d" % k)
        return [None, None, None, "{}", "{ name: 'Named' }", "{ props: ['x'] }", "{ emits: ['e'], inheritAttrs: false }",
                "{ 'props': {}, 'name': 'Q' }", "{ props, emits() {} }", "{ ...base, inheritAttrs: false }", "base", "makeOpts()"][k]

    def ts_module(self):
        r = self.r
        prov = r.wpick([(10, "named"), (1, "aliased"), (1, "namespace"), (1, "local"), (1, "shadow"), (1, "other"), (1, "none"),
                        (1, "alias+other"), (1, "alias+local")])
        self.f("prov:" + prov)
        head = {"named": "import { defineComponent, SetupContext } from 'vue';", "aliased": "import { defineComponent as dc, SetupContext } from 'vue';",
                "namespace": "import * as Vue from 'vue'; import { SetupContext } from 'vue';", "local": "function defineComponent(...a: any[]) { return a }",
                "shadow": "import { defineComponent, SetupContext } from 'vue';",
                # another module's export, also under names that merely resemble 'vue'
                "other": "import { defineComponent } from '%s';" % r.pick(["./vue", "vue-demi", "vue/dist/vue.esm-bundler.js", "@vue/runtime-core", "vuex", "Vue", "vue2-helpers", " vue"]),
                "none": "import { h } from 'vue';",
                # Vue's defineComponent is imported under another name; the binding CALLED defineComponent is not Vue's
                "alias+other": "import { defineComponent as defineVueComponent, SetupContext } from 'vue'; import { defineComponent } from './framework';",
                "alias+local": "import { defineComponent as defineVueComponent, SetupContext } from 'vue'; function defineComponent(...a: any[]) { return a }"}[prov]
        if prov == "named" and r.chance(1, 3):
            # the same bindings spread over several import declarations from 'vue'
            head = r.pick(["import { defineComponent } from 'vue'; import type { SetupContext } from 'vue';",
                           "import { defineComponent } from 'vue'; import { ref, SetupContext } from 'vue';",
                           "import type { SetupContext } from 'vue'; import { defineComponent } from 'vue'; import { toRef } from 'vue';"])
            self.f("imports:split")
        callee = {"aliased": "dc", "namespace": "Vue.defineComponent"}.get(prov, "defineComponent")
        M = self.prop_map()
        pty = self.enc(M, 1 + r.below(3))
        ety, enames = self.events()
        second_kind = r.wpick([(4, "none"), (4, "ctx"), (2, "destructured"), (1, "other"), (1, "untyped"), (1, "noargs")])
        second = {"none": "", "ctx": ", ctx: SetupContext<%s>" % ety, "destructured": ", { emit }: SetupContext<%s>" % ety,
                  "other": ", ctx: Other<%s>" % ety, "untyped": ", ctx", "noargs": ", ctx: SetupContext"}[second_kind]
        first_kind = r.wpick([(8, "typed"), (1, "destructured"), (1, "untyped"), (1, "array")])
        self.default_info = {"form": "none", "per_key": {}}
        first = {"typed": lambda: "props: %s%s" % (pty, self.defaults(M)), "destructured": lambda: "{ foo }: %s" % pty,
                 "untyped": lambda: "props", "array": lambda: "[a]: %s" % pty}[first_kind]()
        body = r.pick(["() => null", "{ return () => <div>{1}</div> }", "null"])
        setup_kind = r.wpick([(6, "arrow"), (3, "function"), (1, "async"), (1, "object")])
        setup = {"arrow": "(%s%s) => %s" % (first, second, body), "function": "function (%s%s) { return null }" % (first, second),
                 "async": "async (%s%s) => null" % (first, second), "object": "{ setup() {} }"}[setup_kind]
        oa = self.options_arg()
        args = setup if oa is None else setup + ", " + oa
        if r.chance(1, 12):
            args = setup + ", ...rest"; self.f("spreadargs")
        if r.chance(1, 14):
            args = ""
        call = "%s(%s)" % (callee, args)
        dk = r.below(8)
        self.f("declkind:%d" % dk)
        stmt = ["const Comp = %s;", "let Comp = %s;", "var Comp = %s;", "export const Comp = %s;", "export default %s;", "Comp2 = %s;",
                "const Comp = (%s);", "const { x } = %s;"][dk] % call
        decoy = ""
        if r.chance(1, 4):
            self.f("decoy-builtin-alias")
            decoy = "function decoyScope() { type Date = string; type Map = [number, number][]; type Partial = { nope: 1 }; interface Promise { then: 1 } return 1 }"
        lines = [head, decoy, "let Comp2; const base = {}; const props = {}; const dflt = {}; const dyn = 'k'; function makeOpts() { return {} } const foo = { bar: 1 };",
                 TYPE_PRELUDE]
        scoped = r.chance(1, 5)
        if scoped:
            self.f("scoped")
            # an outer declaration with the same name as an inner one but another shape
            inner = self.pre + [stmt] + self.post
            outer_decoys = []
            for t in self.pre + self.post:
                import re as _re
                m = _re.match(r"(?:export )?(type|interface) (\w+)", t)
                if m and r.chance(1, 2):
                    outer_decoys.append("%s %s %s" % (m.group(1), m.group(2), "= { decoy: number };" if m.group(1) == "type" else "{ decoy: number }"))
            lines += outer_decoys
            if prov == "shadow":
                inner = ["function defineComponent(...a: any[]) { return a }"] + inner
            lines.append("function scope1() {\n  " + "\n  ".join(x.replace("export ", "") for x in inner) + "\n}")
        else:
            if prov == "shadow":
                lines += self.pre
                lines.append("function scope1(defineComponent: any) { %s }" % stmt.replace("export default", "return").replace("export ", ""))
                lines += self.post
            else:
                lines += self.pre + [stmt] + self.post
        truth = {"props": [[m[0].strip("'"), (not m[1]) if m[3] != "getter" else True, sorted(m[4]) if isinstance(m[4], set) else m[4], m[3], m[2], m[5]] for m in M],
                 "emits": enames, "augmentable": prov == "named" and args != "", "prov": prov,
                 "first": first_kind, "second": second_kind, "setup": setup_kind, "optarg": oa, "spreadargs": "...rest" in args,
                 "declkind": dk, "defaults": getattr(self, "default_info", None), "getter_in_partial": ("enc:partial" in self.feat and any(m[3] == "getter" for m in M))}
        return "\n".join(lines) + "\n", truth


CYCLIC_DECLS = [
    "interface A extends A { x: string }\nexport default defineComponent((props: A) => () => null);",
    "interface A extends B { x: string }\ninterface B extends A { y: number }\nexport default defineComponent((props: A) => () => null);",
    "type A = A;\nexport default defineComponent((props: A) => () => null);",
    "type A = B & { x: 1 }; type B = A;\nexport default defineComponent((props: A) => () => null);",
    "type A = { k: A['k'] };\nexport default defineComponent((props: { p: A['k'] }) => () => null);",
    "interface E extends E { (e: 'a'): void }\nexport default defineComponent((props: {}, ctx: SetupContext<E>) => () => null);",
    "type U = U | string;\nexport default defineComponent((props: { p: U }) => () => null);",
    "type K = K;\nexport default defineComponent((props: Pick<{ a: 1 }, K>) => () => null);",
    "type A = Partial<A>;\nconst C = defineComponent((props: A) => () => null);",
    "interface I { a: J['b'] }\ninterface J { b: I['a'] }\nexport default defineComponent((props: { p: I['a'] }) => () => null);",
]


def gen_cyclic_cases(start_id=0):
    """self- and mutually-referential declarations (C08's quantifier names them): not TypeScript
    programs, but parseable"""
    out = []
    for i, body in enumerate(CYCLIC_DECLS):
        for opts in ('{"resolveType": true}', '{"resolveType": false}'):
            out.append({"id": start_id + len(out), "src": "import { defineComponent, SetupContext } from 'vue';\n" + body + "\n",
                        "syntax": "tsx", "options": opts, "stream": "cyclic", "feat": ["cyclic", "cyclic:%d" % i]})
    return out


def gen_atom_cases(start_id=0):
    """every atom type of the table once alone and once in a union, as a required and as an optional prop:
    deterministic, so no atom's treatment is left to chance"""
    out = []
    for i, a in enumerate(ATOM_TYPES):
        tags = set()
        if a == "1n":
            tags.add("bigint_lit")
        if a in ("any", "unknown", "Obj0[string]"):
            tags.add("any")
        if a == "{}":
            tags.add("empty_obj")
        if a in ("J1['a']", "J1['a' | 'b']"):
            tags.add("inherited_index")
        if a in ("Obj1['k']['size']", "Obj1['k']['n']['length']", "(typeof SIZES)[number]", "string[]['length']"):
            tags.add("unres_index")
        if a in ATOM_ORDER:
            tags.add("order:" + ATOM_ORDER[a])
        k = ATOM_KINDS.get(a)
        ku = kinds_union(k, {"regexp"})
        M = [("p", False, a, "prop", k, sorted(tags)), ("q", True, "(%s) | RegExp" % a, "prop", ku, sorted(tags | {"union"}))]
        src = "\n".join(["import { defineComponent, SetupContext } from 'vue';",
                         "let Comp2; const base = {}; const props = {}; const dflt = {}; const dyn = 'k'; function makeOpts() { return {} } const foo = { bar: 1 };",
                         TYPE_PRELUDE,
                         "export default defineComponent((props: { p: %s; q?: (%s) | RegExp }) => () => null);" % (a, a)]) + "\n"
        truth = {"props": [[m[0], not m[1], sorted(m[4]) if isinstance(m[4], set) else m[4], m[3], m[2], m[5]] for m in M],
                 "emits": [], "augmentable": True, "prov": "named", "first": "typed", "second": "none", "setup": "arrow", "optarg": None,
                 "spreadargs": False, "declkind": 4, "defaults": {"form": "none", "per_key": {}}, "getter_in_partial": False}
        out.append({"id": start_id + i, "src": src, "syntax": "tsx", "options": '{"resolveType": true}', "stream": "types",
                    "feat": ["atom-sweep", "atom:" + a], "truth": truth})
    return out


def gen_default_cases(start_id=0):
    """every function-ish prop type x every non-literal default form (C18): deterministic"""
    out = []
    types = [("((n: number) => string) | string", {"function", "string"}), ("string | (() => void)", {"function", "string"}),
             ("(() => void)", {"function"}), ("Function", {"function"}), ("Function | number", {"function", "number"}),
             ("string", {"string"}), ("{ (): void } | string", {"function", "string"})]
    forms = [("foo.bar", "expr"), ("fn()", "expr"), ("() => 1", "fnvalue"), ("function () { return 2 }", "fnvalue"),
             (None, "shorthand"), ("undefined", "expr"), ("'s'", "literal")]
    for ty, kinds in types:
        for v, kind in forms:
            item = "msg" if v is None else "msg: %s" % v
            src = "\n".join(["import { defineComponent, SetupContext } from 'vue';",
                             "let Comp2; const base = {}; const props = {}; const dflt = {}; const dyn = 'k'; const msg = 1; function makeOpts() { return {} } const foo = { bar: 1 };",
                             TYPE_PRELUDE,
                             "export default defineComponent((props: { msg?: %s; other: number } = { %s }) => () => null);" % (ty, item)]) + "\n"
            truth = {"props": [["msg", False, sorted(kinds), "prop", ty, []], ["other", True, ["number"], "prop", "number", []]],
                     "emits": [], "augmentable": True, "prov": "named", "first": "typed", "second": "none", "setup": "arrow", "optarg": None,
                     "spreadargs": False, "declkind": 4,
                     "defaults": {"form": "static", "per_key": {"msg": [kind, "msg" if v is None else v]}}, "getter_in_partial": False}
            out.append({"id": start_id + len(out), "src": src, "syntax": "tsx", "options": '{"resolveType": true}', "stream": "types",
                        "feat": ["default-sweep"], "truth": truth})
    return out


SCOPE_WRAPPERS = [
    ("top", "%s"), ("fn-decl", "function scope1() {\n%s\n}"), ("arrow-const", "export const make = () => {\n%s\n};"),
    ("fn-expr", "const make = function () {\n%s\n};"), ("callback-arg", "describe(() => {\n%s\n});"),
    ("fn-expr-arg", "describe(function () {\n%s\n});"), ("obj-method", "const o = { make() {\n%s\n} };"),
    ("obj-arrow-prop", "const o = { make: () => {\n%s\n} };"), ("class-method", "class K { make() {\n%s\n} }"),
    ("class-expr-method", "const K = class { make() {\n%s\n} };"), ("block", "{\n%s\n}"), ("if-block", "if (foo.bar) {\n%s\n}"),
    ("nested", "function outer() { const inner = () => {\n%s\n}; return inner }"), ("iife", "(() => {\n%s\n})();"),
    ("for-body", "for (const i of [1]) {\n%s\n}"), ("try", "try {\n%s\n} catch (e) {}"),
    ("arrow-in-call-in-arrow", "const f = () => describe(() => {\n%s\n});"), ("default-param", "function g(cb = () => {\n%s\n}) {}"),
]


def gen_position_cases(start_id=0):
    """every syntactic position a declaration can stand in (C16: `at every declaration position and scope depth`;
    C19 likewise) x declared before / after the call / shadowing an outer declaration / events: deterministic"""
    out = []
    pm = [["msg", True, ["string"], "prop", "string", []], ["n", False, ["number"], "prop", "number", []]]
    bodies = [
        ("before", "interface P { msg: string; n?: number }\nconst Comp = defineComponent((props: P) => () => null);", "", pm, [], "none"),
        ("after", "const Comp = defineComponent((props: P) => () => null);\ntype P = { msg: string } & Q;\ninterface Q { n?: number }", "", pm, [], "none"),
        ("shadow", "type P = { msg: string; n?: number };\nconst Comp = defineComponent((props: P) => () => null);",
         "interface P { decoy: number }", pm, [], "none"),
        ("events", "interface Em { (e: 'update:open', v: boolean): void; (e: 'before-close'): void }\n"
                   "const Comp = defineComponent((props: { a: 1 }, ctx: SetupContext<Em>) => () => null);", "type Em = { decoy: [] };",
         [["a", True, ["number"], "prop", "1", []]], ["update:open", "before-close"], "ctx"),
    ]
    for wname, w in SCOPE_WRAPPERS:
        for bname, body, outer, props, emits, second in bodies:
            if wname == "top" and outer:
                outer = ""
                if bname == "shadow":
                    continue
            src = "\n".join(["import { defineComponent, SetupContext } from 'vue';",
                             "let Comp2; const base = {}; const props = {}; const dflt = {}; const dyn = 'k'; function makeOpts() { return {} } const foo = { bar: 1 };",
                             "function describe(f: any) {}", TYPE_PRELUDE, outer, w % body]) + "\n"
            truth = {"props": props, "emits": emits, "augmentable": True, "prov": "named", "first": "typed", "second": second,
                     "setup": "arrow", "optarg": None, "spreadargs": False, "declkind": 0,
                     "defaults": {"form": "none", "per_key": {}}, "getter_in_partial": False}
            out.append({"id": start_id + len(out), "src": src, "syntax": "tsx", "options": '{"resolveType": true}', "stream": "types",
                        "feat": ["position-sweep", "pos:" + wname, "posbody:" + bname], "truth": truth})
    return out


def gen_types_cases(seed, n, start_id=0):
    out = gen_atom_cases(start_id)
    out += gen_default_cases(start_id + len(out))
    out += gen_position_cases(start_id + len(out))
    start_id += len(out)
    for i in range(n):
        g = TGen(Rng(seed * 7368787 + i))
        if i % 6 == 4:
            g.focus_defaults = True
        if i % 7 == 6:
            g.focus_overload = True
        if i % 12 == 3:
            # a key declared by several operands: a discriminated union, an Omit<> beside a redeclaration
            g.focus_dup = True
            g.force_op = g.r.pick(["union_dup", "inter_omit"])
        if i % 6 == 5:
            # every sixth module: a utility type over a map that contains a method signature
            g.focus_ops = True
            g.force_op = g.r.pick(["required", "partial", "pick", "omit"])
        src, truth = g.ts_module()
        o = {"resolveType": True}
        r = g.r
        if r.chance(1, 3):
            o["optimize"] = True
        if r.chance(1, 10):
            o["resolveType"] = False
        out.append({"id": start_id + i, "src": src, "syntax": "tsx", "options": json.dumps(o), "stream": "types",
                    "feat": sorted(g.feat), "truth": truth})
    return out


if __name__ == "__main__":
    seed = int(sys.argv[1]); n = int(sys.argv[2])
    kind = sys.argv[3] if len(sys.argv) > 3 else "module"
    for c in (gen_types_cases(seed, n) if kind == "types" else gen_site_cases(seed, n) if kind == "site"
              else gen_ctx_cases(seed, n) if kind == "ctx" else gen_scope_cases(seed, n) if kind == "scope" else gen_elem_cases(seed, n)):
        print(json.dumps(c))
