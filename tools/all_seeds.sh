#!/bin/bash
# usage: all_seeds.sh [suffix...]  -- apply every seeded change (seeded/<id><suffix>, default: all rounds) to
# /repo in turn, run its property's quick check, undo it; one line per seed in work/seeds.log.
# Never run while a sweep is running (same lock): both use /repo and the harness build.
cd /verif
exec 9>/verif/work/.sweep.lock
flock -n 9 || { echo "a sweep is running"; exit 1; }
log=work/seeds.log; : > $log
for d in $(ls seeded | sort); do
  case "$d" in C??|C??_r?) ;; *) continue;; esac
  if [ $# -gt 0 ]; then ok=0; for s in "$@"; do [ "${d:3}" = "$s" ] && ok=1; done; [ $ok = 1 ] || continue; fi
  p=${d:0:3}
  out=$(VERIF_SEED=${VERIF_SEED:-1} tools/try_seed.sh $d $p quick 2>&1)
  v=$(echo "$out" | grep -E "^VIOLATION" | head -1)
  echo "$d ${v:-NOT-DETECTED} | $(echo "$out" | grep -E "^seed=" )" >> $log
done
echo "all seeds done" >> $log
