"""Per-property configuration of bin/vp: generators, judges, trusted base."""
import json, os, subprocess, sys
import gen_cases

ROOT = os.path.dirname(os.path.dirname(os.path.abspath(__file__)))
HARNESS = os.path.join(ROOT, "harness", "target", "debug", "vjx-harness")
DRIVER = os.path.join(ROOT, "ocaml", "_build", "default", "driver.exe")
WORK = os.path.join(ROOT, "work")

TRUSTED_COMMON = [
    "Coq 8.16.1 kernel (coqc, full .vo build; vm_compute only inside finite-table lemmas); no native_compute",
    "axioms: none (every Print Assumptions under Props/ reports 'Closed under the global context')",
    "extraction to OCaml 4.13.1 with ExtrOcamlBasic only (its Extract Inductive for bool/option/unit/list/prod/sumbool/sumor; no Extract Constant) + ocaml/driver.ml (token parser, printing)",
    "translator tools/gen_tables.py (fails closed) and tools/lints.py",
    "harness: SWC parser/resolver/serde JSON of the AST, span stripping, context canonicalisation, regex crate as the match oracle",
    "the hand-written model coq/Model/*.v is tied to the code by differential testing on the corpus and generated cases of each run, not by proof",
]
ASSUMPTIONS_COMMON = [
    "Rust std string functions are modelled (Model/Str.v), exercised by the correspondence, not verified",
    "the correspondence shows agreement only on the inputs of this run",
]


def n_cases(tier, quick, thorough):
    return quick if tier == "quick" else thorough


def gen_modules(seed, tier, start, quick=240, thorough=6000):
    return gen_cases.gen_elem_cases(seed, n_cases(tier, quick, thorough), start)


def judge_corr(case, side, res):
    """whole-output correspondence only"""
    st = side.get("status")
    if st in ("parse-error", "bad-options", "missing"):
        return {"relevant": False}
    if st in ("abort", "timeout"):
        return {"relevant": True, "ok": True, "corr_ok": False, "why": "real run: " + st}
    if res is None:
        return {"relevant": True, "ok": True, "corr_ok": False, "why": "no model result"}
    ok = all(res.get(k) == "1" for k in ("roundtrip", "status", "out", "diag"))
    return {"relevant": True, "ok": True, "corr_ok": ok,
            "why": None if ok else "model and real visitor differ: " + " ".join("%s=%s" % (k, res.get(k)) for k in ("roundtrip", "status", "out", "diag"))}


def make_judge(okey=None, vkey=None, relevant=None, whole=False):
    """okey: oracle result on the REAL output ('1', 'known:<slug>', 'fail:<why>');
       vkey: view correspondence flag; whole: also require whole-output agreement"""
    def judge(case, side, res):
        st = side.get("status")
        if st in ("parse-error", "bad-options", "missing"):
            return {"relevant": False}
        if st in ("abort", "timeout"):
            return {"relevant": True, "ok": True, "corr_ok": False, "why": "real run: " + st}
        if res is None:
            return {"relevant": True, "ok": True, "corr_ok": False, "why": "no model result"}
        rel = relevant(case, side, res) if relevant else True
        base = all(res.get(k) == "1" for k in ("roundtrip", "status", "diag"))
        if whole or vkey is None:
            corr = base and res.get("out") == "1"
        else:
            corr = base and res.get(vkey, "1") == "1"
        v = {"relevant": rel, "ok": True, "corr_ok": corr,
             "why": None if corr else "model and real visitor differ: " + " ".join("%s=%s" % (k, res.get(k)) for k in ("roundtrip", "status", "out", "diag", vkey) if k)}
        if okey and st == "ok":
            o = res.get(okey, "1")
            if o.startswith("known:"):
                v["ok"] = False
                v["known"] = o[6:]
                v["oracle_why"] = "oracle %s: known class %s" % (okey, o[6:])
            elif o != "1":
                v["ok"] = False
                v["oracle_why"] = "oracle %s on the real output: %s" % (okey, o)
        return v
    return judge


def with_options(cases, fn):
    for c in cases:
        o = json.loads(c["options"])
        fn(o, c)
        c["options"] = json.dumps(o)
    return cases


# ---------------------------------------------------------------- C02: text via the hook
TEXT_ALPHA = [32, 9, 10, 13, 160, 0x2003, 0x3000, 11, 12, 97, 98, 38]


def c02_text_extra(seed, tier):
    rng = gen_cases.Rng(seed * 7919 + 17)
    strings = set()
    # exhaustive small scope + random longer ones
    import itertools
    maxlen = 4 if tier == "quick" else 6
    alpha = TEXT_ALPHA[:9] if tier == "quick" else TEXT_ALPHA[:10]
    for n in range(0, maxlen + 1):
        for t in itertools.product(alpha, repeat=n):
            strings.add(t)
    for _ in range(3000 if tier == "quick" else 100000):
        n = 1 + rng.below(14)
        s = []
        for _ in range(n):
            if rng.chance(1, 8):
                s += [13, 10]
            else:
                s.append(rng.pick(TEXT_ALPHA))
        strings.add(tuple(s))
    strings = sorted(strings)
    os.makedirs(WORK, exist_ok=True)
    f = os.path.join(WORK, "c02.strings.txt")
    with open(f, "w") as fh:
        for s in strings:
            fh.write(",".join(map(str, s)) + "\n")
    real = subprocess.run([HARNESS, "text", f], stdout=subprocess.PIPE, timeout=1200).stdout.decode().split("\n")
    model = subprocess.run([DRIVER, "text", f], stdout=subprocess.PIPE, timeout=1200).stdout.decode().split("\n")
    viol, dis = [], []
    for i, s in enumerate(strings):
        m, spec = model[i].split(";")
        if real[i] != spec:
            viol.append({"input_codepoints": list(s), "real": real[i], "jsx_clean": spec})
        if real[i] != m:
            dis.append({"input_codepoints": list(s), "real": real[i], "model": m})
    os.remove(f)
    return {"n": len(strings), "violations": viol, "disagreements": dis,
            "samples": [{"input_codepoints": list(strings[len(strings) // 2]), "real_transform_text": real[len(strings) // 2]}],
            "what": "transform_text through the verif hook on %d strings (all of length <= %d over %d code points + random) vs. the model and vs. jsx_clean" % (len(strings), maxlen, len(alpha))}


def gen_c13(seed, tier, start):
    cs = gen_modules(seed, tier, start, 300, 8000)
    # hints are only emitted under optimize
    return with_options(cs, lambda o, c: o.__setitem__("optimize", True) if c["id"] % 4 else None)


PROPS = {
    "C13": {
        "gen": gen_c13,
        "judge": make_judge("oC13", "vC13", relevant=lambda c, s, r: '"optimize": true' in c["options"] or '"optimize":true' in c["options"]),
        "trusted": ["Spec/PatchFlags.v is this check's reading of Vue's patch-flag contract (shouldUpdateComponent / patchElement use of CLASS, STYLE, PROPS, FULL_PROPS, dynamicProps)"],
        "assumptions": ["the `_`=2 rule for bound identifier children is covered by the correspondence (whole slot objects are in the view) and by C13_slot_hint_values; its full statement is not yet a theorem"],
    },
    "C02": {
        "gen": lambda seed, tier, start: gen_modules(seed, tier, start),
        "judge": judge_corr,
        "extra": c02_text_extra,
        "trusted": ["Spec/JsxText.jsx_clean is the reading of 'the standard JSX rule' this check uses"],
        "assumptions": ["children part: whole-output correspondence + structural theorems about transform_children; Vue's createTextVNode is the runtime's"],
    },
}
