"""Per-property configuration of bin/vp: generators, judges, trusted base."""
import json, os, subprocess, sys
import gen_cases

ROOT = os.path.dirname(os.path.dirname(os.path.abspath(__file__)))
HARNESS = os.path.join(ROOT, "harness", "target", "debug", "vjx-harness")
DRIVER = os.path.join(ROOT, "ocaml", "_build", "default", "driver.exe")
WORK = os.path.join(ROOT, "work")

TRUSTED_COMMON = [
    "Coq 8.16.1 kernel (coqc, full .vo build; vm_compute only inside finite-table lemmas); no native_compute",
    "axioms: none (every Print Assumptions under Props/ reports 'Closed under the global context')",
    "extraction to OCaml 4.13.1 with ExtrOcamlBasic only (its Extract Inductive for bool/option/unit/list/prod/sumbool/sumor; no Extract Constant) + ocaml/driver.ml (token parser, printing)",
    "translator tools/gen_tables.py (fails closed) and tools/lints.py",
    "harness: SWC parser/resolver/serde JSON of the AST, span stripping, context canonicalisation, regex crate as the match oracle",
    "the hand-written model coq/Model/*.v is tied to the code by differential testing on the corpus and generated cases of each run, not by proof",
]
ASSUMPTIONS_COMMON = [
    "Rust std string functions are modelled (Model/Str.v), exercised by the correspondence, not verified",
    "the correspondence shows agreement only on the inputs of this run",
]


def n_cases(tier, quick, thorough):
    return quick if tier == "quick" else thorough


def gen_modules(seed, tier, start, quick=240, thorough=6000):
    return gen_cases.gen_elem_cases(seed, n_cases(tier, quick, thorough), start)


def judge_corr(case, side, res):
    """whole-output correspondence only"""
    st = side.get("status")
    if st in ("parse-error", "bad-options", "missing"):
        return {"relevant": False}
    if st in ("abort", "timeout"):
        return {"relevant": True, "ok": True, "corr_ok": False, "why": "real run: " + st}
    if res is None:
        return {"relevant": True, "ok": True, "corr_ok": False, "why": "no model result"}
    ok = all(res.get(k) == "1" for k in ("roundtrip", "status", "out", "diag"))
    return {"relevant": True, "ok": True, "corr_ok": ok,
            "why": None if ok else "model and real visitor differ: " + " ".join("%s=%s" % (k, res.get(k)) for k in ("roundtrip", "status", "out", "diag"))}


def make_judge(okey=None, vkey=None, relevant=None, whole=False):
    """okey: oracle result on the REAL output ('1', 'known:<slug>', 'fail:<why>');
       vkey: view correspondence flag; whole: also require whole-output agreement"""
    def judge(case, side, res):
        st = side.get("status")
        if st in ("parse-error", "bad-options", "missing"):
            return {"relevant": False}
        if st in ("abort", "timeout"):
            return {"relevant": True, "ok": True, "corr_ok": False, "why": "real run: " + st}
        if res is None:
            return {"relevant": True, "ok": True, "corr_ok": False, "why": "no model result"}
        rel = relevant(case, side, res) if relevant else True
        base = all(res.get(k) == "1" for k in ("roundtrip", "status", "diag"))
        if whole or vkey is None:
            corr = base and res.get("out") == "1"
        else:
            corr = base and res.get(vkey, "1") == "1"
        v = {"relevant": rel, "ok": True, "corr_ok": corr,
             "why": None if corr else "model and real visitor differ: " + " ".join("%s=%s" % (k, res.get(k)) for k in ("roundtrip", "status", "out", "diag", vkey) if k)}
        if okey and st == "ok":
            o = res.get(okey, "1")
            if o.startswith("known:"):
                v["ok"] = False
                v["known"] = o[6:]
                v["oracle_why"] = "oracle %s: known class %s" % (okey, o[6:])
            elif o != "1":
                v["ok"] = False
                v["oracle_why"] = "oracle %s on the real output: %s" % (okey, o)
        return v
    return judge


def with_options(cases, fn):
    for c in cases:
        o = json.loads(c["options"])
        fn(o, c)
        c["options"] = json.dumps(o)
    return cases


# ---------------------------------------------------------------- C02: text via the hook
TEXT_ALPHA = [32, 9, 10, 13, 160, 0x2003, 0x3000, 11, 12, 97, 98, 38]


def c02_text_extra(seed, tier):
    rng = gen_cases.Rng(seed * 7919 + 17)
    strings = set()
    # exhaustive small scope + random longer ones
    import itertools
    maxlen = 4 if tier == "quick" else 6
    alpha = TEXT_ALPHA[:9] if tier == "quick" else TEXT_ALPHA[:10]
    for n in range(0, maxlen + 1):
        for t in itertools.product(alpha, repeat=n):
            strings.add(t)
    for _ in range(3000 if tier == "quick" else 100000):
        n = 1 + rng.below(14)
        s = []
        for _ in range(n):
            if rng.chance(1, 8):
                s += [13, 10]
            else:
                s.append(rng.pick(TEXT_ALPHA))
        strings.add(tuple(s))
    strings = sorted(strings)
    os.makedirs(WORK, exist_ok=True)
    f = os.path.join(WORK, "c02.strings.txt")
    with open(f, "w") as fh:
        for s in strings:
            fh.write(",".join(map(str, s)) + "\n")
    real = subprocess.run([HARNESS, "text", f], stdout=subprocess.PIPE, timeout=1200).stdout.decode().split("\n")
    model = subprocess.run([DRIVER, "text", f], stdout=subprocess.PIPE, timeout=1200).stdout.decode().split("\n")
    viol, dis = [], []
    for i, s in enumerate(strings):
        m, spec = model[i].split(";")
        if real[i] != spec:
            viol.append({"input_codepoints": list(s), "real": real[i], "jsx_clean": spec})
        if real[i] != m:
            dis.append({"input_codepoints": list(s), "real": real[i], "model": m})
    os.remove(f)
    return {"n": len(strings), "violations": viol, "disagreements": dis,
            "samples": [{"input_codepoints": list(strings[len(strings) // 2]), "real_transform_text": real[len(strings) // 2]}],
            "what": "transform_text through the verif hook on %d strings (all of length <= %d over %d code points + random) vs. the model and vs. jsx_clean" % (len(strings), maxlen, len(alpha))}


def gen_c13(seed, tier, start):
    cs = gen_cases.gen_matrix_cases(start)
    cs = cs + gen_modules(seed, tier, start + len(cs), 300, 8000)
    # probe elements: the slot-flag clause is decided against the source element
    cs = cs + gen_cases.gen_site_cases(seed, n_cases(tier, 300, 8000), start + len(cs))
    # hints are only emitted under optimize
    return with_options(cs, lambda o, c: o.__setitem__("optimize", True) if c["id"] % 4 else None)


def judge_c13(case, side, res):
    v = make_judge("oC13", "vC13", relevant=lambda c, s, r: '"optimize": true' in c["options"] or '"optimize":true' in c["options"])(case, side, res)
    if v.get("ok", True) and res is not None and side.get("status") == "ok":
        f = res.get("site_flags", "none")
        if f not in ("1", "none"):
            v["ok"] = False
            v["oracle_why"] = "slot hint of the probe element: " + f
    return v


def jsfree_cases(start, tier, seed):
    import glob
    out = []
    files = sorted(glob.glob(os.path.join(ROOT, "corpus", "jsfree", "*.js")))
    optsets = ['{}', '{"optimize":true,"transformOn":true}', '{"mergeProps":false,"enableObjectSlots":false,"pragma":"h"}',
               '{"customElementPatterns":["^x-"],"optimize":true}']
    if tier != "quick":
        optsets += ['{"transformOn":true}', '{"optimize":true,"mergeProps":false}', '{"enableObjectSlots":false}', '{"pragma":"h","optimize":true}']
    i = start
    for k, f in enumerate(files):
        src = open(f, encoding="utf-8").read()
        for o in (optsets if tier != "quick" else [optsets[(k + seed) % len(optsets)]]):
            out.append({"id": i, "src": src, "syntax": "jsx", "options": o, "stream": "jsfree", "feat": ["jsfree"]})
            i += 1
    return out


PROLOGUE_MODULES = [
    "function render(items) { 'use strict'; return <Comp>{items.map(fn)}</Comp>; }\n",
    "class V { m() { \"use strict\"; 'second'; foo = <Comp>{foo}</Comp>; return foo } }\n",
    "const y = (p) => { 'use strict'; return <NS.Item>{g()}</NS.Item> };\n",
    "function outer() { 'use strict'; if (a) { 'in block'; b = <Comp>{b}</Comp>; } return <div>{a}</div> }\n",
    "export default function () { 'use strict'; const k = <Comp>{fn()}</Comp>; const j = <Comp>{g()}</Comp>; return [k, j] }\n",
]


def gen_c09(seed, tier, start):
    cs = jsfree_cases(start, tier, seed)
    for s in PROLOGUE_MODULES:
        for o in ('{}', '{"optimize": true}', '{"enableObjectSlots": false}'):
            cs.append({"id": start + len(cs), "src": gen_cases.PROLOGUE + s, "syntax": "jsx", "options": o, "stream": "module",
                       "feat": ["prologue-module"]})
    cs = cs + gen_modules(seed, tier, start + len(cs), 200, 5000)
    return cs + gen_cases.gen_types_cases(seed, 120 if tier == "quick" else 3000, start + len(cs))


def judge_c09(case, side, res):
    v = make_judge(None, None, whole=True)(case, side, res)
    if res and side.get("status") == "ok":
        if res.get("oC09frame", "1") != "1":
            v["ok"] = False; v["oracle_why"] = "a JSX-free module did not come back unchanged"
        elif res.get("oC09items", "1") != "1":
            v["ok"] = False; v["oracle_why"] = "a JSX-free top-level statement of the input does not appear unchanged (and in order) in the output"
        elif res.get("oC09stmts", "1") != "1" and not side.get("diags"):
            v["ok"] = False; v["oracle_why"] = "a JSX-free statement of the input (at some depth) is not a statement of the output any more"
        elif res.get("oC09idem", "1") != "1":
            v["ok"] = False; v["oracle_why"] = "the second pass over the output changed it"
        elif (case.get("stream") == "types" and res.get("jsxfree_in") == "1" and res.get("same_in", "1") != "1"
              and case.get("truth", {}).get("prov") in ("other", "local", "none", "aliased", "namespace")):
            # resolveType on, but no call of Vue's defineComponent (generator's ground truth) and no JSX
            v["ok"] = False
            v["oracle_why"] = ("a module without JSX and without a call of Vue's defineComponent (provenance: %s) did not come back unchanged"
                               % case["truth"]["prov"])
        elif case.get("stream") == "types" and case.get("truth", {}).get("prov") != "named":
            # a call that is not Vue's defineComponent is an `other expression`: it must appear unchanged
            w = judge_c20(case, side, res)
            if not w.get("ok", True) and "was changed" in (w.get("oracle_why") or ""):
                v["ok"] = False; v["oracle_why"] = w["oracle_why"]
    return v


def judge_c07(case, side, res):
    v = make_judge(None, "vC07")(case, side, res)
    if res is not None and v.get("relevant") and res.get("gram_in", "1") != "1":
        # the traversal theorems (C07_traversal_is_jsx_free, C07_module_is_jsx_free) assume Spec/Plain.gram of the parsed input
        v["corr_ok"] = False
        v["why"] = "the parsed input does not satisfy Spec/Plain.gram, the hypothesis of the C07 traversal theorems"
    if res and side.get("status") == "ok":
        if not side.get("diags"):
            if res.get("oC07", "1") != "1":
                v["ok"] = False; v["oracle_why"] = "JSX nodes left in the output and no diagnostic"
            elif side.get("reparse_ok") is False:
                v["ok"] = False; v["oracle_why"] = "printed output does not re-parse as plain %s and no diagnostic" % case["syntax"]
    return v


def judge_c08(case, side, res):
    v = make_judge(None, None, whole=True)(case, side, res)
    st = side.get("status")
    if case.get("stream") == "cyclic" and st == "ok":
        # circular declarations: the code reports them (fix 9b943db); the model's resolver runs on fuel and
        # reports exhaustion instead, so the two outputs are not compared - the property is decided
        # on the real run alone: it returned, and with resolveType on it said why
        v["relevant"] = True; v["corr_ok"] = True; v["why"] = None
        if '"resolveType": true' in case["options"] and not any("ircular" in d for d in side.get("diags", [])):
            v["ok"] = False; v["oracle_why"] = "a circular type declaration was neither followed to a crash nor reported"
        return v
    if st in ("panic", "abort", "timeout"):
        v["relevant"] = True; v["ok"] = False
        v["oracle_why"] = "the transform did not return: %s %s" % (st, side.get("panic", ""))
        slug = CYCLE_KNOWN(case)
        if slug:
            v["known"] = slug
            # the real run left no tree to compare the model's with: the case is outside the correspondence
            v["corr_ok"] = True; v["why"] = None
    elif st == "ok" and side.get("rerun_same") is False:
        v["ok"] = False; v["oracle_why"] = "a second run in the same process gave a different result"
    return v


def CYCLE_KNOWN(case):
    return None


def c08_fresh_process_extra(seed, tier):
    """the same cases in two fresh processes, in different orders: byte-identical results"""
    cases = gen_modules(seed + 77, tier, 0, 120, 2000)
    os.makedirs(WORK, exist_ok=True)
    outs = []
    for k, order in enumerate((cases, list(reversed(cases)))):
        cj = os.path.join(WORK, "c08.fresh%d.jsonl" % k)
        with open(cj, "w") as f:
            for c in order:
                f.write(json.dumps({"id": c["id"], "src": c["src"], "syntax": c["syntax"], "options": c["options"]}) + "\n")
        tok = os.path.join(WORK, "c08.fresh%d.tok" % k); side = os.path.join(WORK, "c08.fresh%d.side" % k)
        subprocess.run([HARNESS, "run", cj, tok, side], timeout=1200, stdout=subprocess.PIPE, stderr=subprocess.PIPE)
        d = {}
        for l in open(side):
            r = json.loads(l)
            d[r["id"]] = (r.get("status"), r.get("printed"), r.get("diags"))
        outs.append(d)
        for f in (cj, tok, side):
            if os.path.exists(f):
                os.remove(f)
    viol = []
    for c in cases:
        if outs[0].get(c["id"]) != outs[1].get(c["id"]):
            viol.append({"source": c["src"], "options": c["options"], "run1": outs[0].get(c["id"]), "run2": outs[1].get(c["id"])})
    return {"n": len(cases), "violations": viol, "disagreements": [],
            "samples": [{"source": cases[0]["src"][-200:], "options": cases[0]["options"], "fresh_process_equal": True}],
            "what": "%d cases run in two fresh processes in opposite orders; status, printed output and diagnostics compared byte for byte" % len(cases)}


def gen_pairs_optimize(seed, tier, start):
    cs = gen_cases.gen_matrix_cases(start)
    cs = cs + gen_modules(seed, tier, start + len(cs), 240, 6000)
    for c in cs:
        o = json.loads(c["options"]); o["optimize"] = True
        a = dict(o); a["optimize"] = False
        c["options"] = json.dumps(o); c["options_alt"] = json.dumps(a)
    return cs


OPTION_TEXTS = [
    '{}', '[]', ' { } ', '{"optimize":true}', '{"optimize":true,"optimize":false}', '{"transform_on":true}',
    '{"unknown":1,"optimize":true}', '{"optimize":"yes"}', '{"pragma":null}', '{"pragma":"h"}', '{"pragma":1}',
    '{"customElementPatterns":["^x-"]}', '{"customElementPatterns":["("]}', '{"customElementPatterns":"^x-"}',
    '{"customElementPatterns":[1]}', '{"customElementPatterns":["^a","[z-a]"]}', 'null', '1', '"s"', 'true',
    '[true]', '[false,true,["^x-"],false,false,"h",true]', '[false,true,["("]]', '[1]', '[false,false,[],true,true,null,false,1]',
    '{"\u0070ragma":"h"}', '{"mergeProps":false,"enableObjectSlots":false,"transformOn":true,"resolveType":true}',
    '{"mergeProps":null}', '{"resolveType":0}', '{"optimize":true,"Optimize":false}', '{"":1}', '{"optimize":true,"x":{"optimize":false}}',
    '{"customElementPatterns":[]}', '{"customElementPatterns":["^x-","^x-"]}', '{"pragma":"h","pragma":"g"}', '{"enableObjectSlots":"false"}',
]


def gen_c14(seed, tier, start):
    rng = gen_cases.Rng(seed * 31 + 5)
    out = []
    i = start
    src = "const v = <x-el class={a} on={{ click: f }} {...y}><Comp>{g()}</Comp></x-el>;\n"
    # (1) configuration texts through the real serde_json call
    texts = list(OPTION_TEXTS)
    keys = ["transformOn", "optimize", "mergeProps", "enableObjectSlots", "resolveType", "pragma", "customElementPatterns", "zzz", "transform_on"]
    vals = ["true", "false", "null", "1", '"h"', '["^x-"]', '["("]', "[]", "{}"]
    for _ in range(150 if tier == "quick" else 3000):
        n = rng.below(4)
        texts.append("{" + ",".join('"%s":%s' % (rng.pick(keys), rng.pick(vals)) for _ in range(n)) + "}")
    texts += ['{"customElementPatterns": ["foo(", ")bar"]}', '{"customElementPatterns": ["^x-", "("]}', '{"customElementPatterns": ["[a-", "z]"]}',
              '{"customElementPatterns": ["(?i)^x-", "^my"]}', '{"customElementPatterns": ["a{2", "}"]}']
    for t in texts:
        out.append({"id": i, "src": src, "syntax": "jsx", "options": t, "stream": "options", "feat": ["options-text"]}); i += 1
    # (1c) an absent option equals its documented default: a configuration against the same one with
    # every absent documented key written out, on a module that uses every governed feature
    documented = {"transformOn": False, "optimize": False, "mergeProps": True, "enableObjectSlots": True, "resolveType": False}
    for tx in ['{}', '{"optimize":true}', '{"mergeProps":true}', '{"zzz":1}', '{"transformOn":true}', '{"enableObjectSlots":true,"optimize":true}',
               '{"mergeProps":false}', '{"pragma":"h"}', '{"customElementPatterns":["^x-"]}', '{"enableObjectSlots":false}']:
        o = json.loads(tx)
        a = dict(o)
        for k, dv in documented.items():
            a.setdefault(k, dv)
        out.append({"id": i, "src": src + "const w = <Comp>{a}</Comp>;\n", "syntax": "jsx", "options": tx, "options_alt": json.dumps(a),
                    "stream": "options", "feat": ["options-text", "defaults-pair"], "defaults_pair": True}); i += 1
    # (1b) pattern lists against no pattern at all, on modules none of whose tags they match
    pools = [["(?i)^x-", "^my"], ["^zzz", "(?i:qq)$"], ["^(?i)never", "-nope$"], ["(?s)^q.", "^w"]]
    for c in gen_modules(seed + 17, tier, i, 60, 1500):
        o = json.loads(c["options"]); o.pop("customElementPatterns", None)
        a = dict(o); o["customElementPatterns"] = pools[rng.below(len(pools))]
        c["options"] = json.dumps(o); c["options_alt"] = json.dumps(a); c["nomatch_pair"] = True
        c["id"] = i; i += 1
        c["feat"] = c["feat"] + ["nomatch-patterns"]
        out.append(c)
    # (2) paired runs: flip an option whose feature the module does not use
    mods = gen_modules(seed, tier, i, 220, 5000)
    for c in mods:
        f = set(c["feat"]); o = json.loads(c["options"]); a = dict(o)
        choices = []
        if not ({"attrk:on", "attrk:nativeOn"} & f):
            choices.append("transformOn")
        if not ({"single:ident", "single:call", "single:any", "single:maybe"} & f):
            # a sole function / object-literal / text / element child is NOT governed by the option
            choices.append("enableObjectSlots")
        if not ({"spread", "attr:repeated", "attrk:directive", "attrk:update"} & f):
            # no spread, no attribute written twice, no directive that adds a listener of its own
            choices.append("mergeProps"); choices.append("mergeProps")
        choices.append("customElementPatterns")
        choices.append("resolveType")
        k = choices[rng.below(len(choices))]
        if k == "customElementPatterns":
            a["customElementPatterns"] = list(o.get("customElementPatterns", [])) + ["^zzz-never$"]
        else:
            dflt = {"transformOn": False, "enableObjectSlots": True, "resolveType": False, "mergeProps": True}[k]
            a[k] = not o.get(k, dflt)
        c["options_alt"] = json.dumps(a); c["feat"] = c["feat"] + ["flip:" + k]
    # (3) targeted flips: each class of input the property names as NOT governed by an option, under
    # every way of choosing the factory (no pragma, option, comment) and with / without hints
    i = (mods[-1]["id"] + 1) if mods else i
    pre = gen_cases.PROLOGUE
    not_slots = ['<Comp>{<b id="b" />}</Comp>', "<Comp>{<>t</>}</Comp>", "<Comp><b/></Comp>", "<Comp>{() => 1}</Comp>",
                 "<Comp>{{ a: () => 1 }}</Comp>", "<Comp>text</Comp>", "<Comp>{a}{b}</Comp>", '<Comp>{"s"}</Comp>',
                 "<Comp>{a ? b : val}</Comp>", "<Comp>{foo.bar}</Comp>", "<Comp>{[a]}</Comp>", "<Comp>{<Comp>{a}{b}</Comp>}</Comp>",
                 "<NS.Item>{<KeepAlive>t</KeepAlive>}</NS.Item>", "<div>{a}</div>", "<div>{fn()}</div>"]
    not_on = ["<div onClick={fn} id={a} />", "<Comp onUpdate:x={fn}>{a}</Comp>", "<div once={a} online={b} />"]
    not_merge = ["<div class={a} id=\"i\" onClick={fn} />", "<Comp title={a}>{b}</Comp>", "<div id=\"i\" on={{ click: fn }} />",
                 "<Comp title={a} nativeOn={{ click: fn }} id=\"j\">{b}</Comp>", "<div on={{ click: fn }} />"]
    bases = [({}, ""), ({"pragma": "h"}, ""), ({"optimize": True}, ""), ({"pragma": "custom", "optimize": True}, ""),
             ({}, "/* @jsx h */\n"), ({"optimize": True}, "// @jsx  hh\n"), ({"transformOn": True}, ""), ({"transformOn": True, "optimize": True}, "")]
    for srcs, key, dflt in [(not_slots, "enableObjectSlots", True), (not_on, "transformOn", False), (not_merge, "mergeProps", True),
                            (not_slots[:4] + not_on[:1], "transformOn", False), (not_slots[:6], "mergeProps", True)]:
        for s in srcs:
            for (o, cm) in bases:
                for first in (True, False):
                    o1 = dict(o); o1[key] = first
                    o2 = dict(o); o2[key] = not first
                    if first == dflt:
                        o1.pop(key)            # the default, left unwritten
                    out.append({"id": i, "src": cm + pre + "const v = " + s + ";\n", "syntax": "jsx", "options": json.dumps(o1),
                                "options_alt": json.dumps(o2), "stream": "module", "feat": ["targeted-flip", "flip:" + key]})
                    i += 1
    return mods + out


def judge_c14(case, side, res):
    st = side.get("status")
    if st == "bad-options":
        ok = res is not None and res.get("optcorr") == "1"
        return {"relevant": True, "ok": True, "corr_ok": ok, "why": None if ok else "serde rejected the configuration but the model of Options accepts it"}
    v = make_judge(None, None, whole=True)(case, side, res)
    if any(isinstance(x, list) and len(x) == 2 and x[1] is False for x in side.get("regex_valid", [])):
        # every pattern is compiled on its own by the harness: one of them is not a regular expression
        v["ok"] = False; v["oracle_why"] = "a configuration with an invalid custom-element pattern was accepted: %s" % [x[0] for x in side["regex_valid"] if x[1] is False]
        return v
    if res is not None and res.get("optcorr", "1") != "1":
        v["corr_ok"] = False; v["why"] = "model of Options deserialisation disagrees with serde_json"
    if res is not None and case.get("nomatch_pair") and res.get("alt_same", "1") != "1":
        ms = side.get("matches", [])
        if all(not any(m[1]) for m in ms):
            v["ok"] = False; v["oracle_why"] = "custom-element patterns that match no tag of the module (each compiled on its own) changed the output"
    if res is not None and case.get("defaults_pair") and res.get("alt_same", "1") != "1":
        v["ok"] = False; v["oracle_why"] = "an absent option does not equal its documented default: %s against %s" % (case["options"], case["options_alt"])
        return v
    if res is not None and "options_alt" in case and not case.get("nomatch_pair") and res.get("alt_same", "1") != "1":
        v["ok"] = False; v["oracle_why"] = "flipping %s changed the output although the module does not use that feature" % [x for x in case["feat"] if x.startswith("flip:")]
    if case.get("stream") == "options" and res is not None and st == "ok":
        # documented defaults: `{}` and `[]` behave as no configuration
        pass
    return v


def gen_c15(seed, tier, start):
    cs = gen_modules(seed, tier, start, 260, 6000)
    rng = gen_cases.Rng(seed * 13 + 1)
    texts = ["@jsx h", " @jsx custom more words ", "* @jsxImportSource vue", "@jsxRuntime automatic", "@jsxFrag F", "@jsx", "plain",
             "*\n * @jsx  pragma2\n * tail", "@jsxRuntime classic @jsx h", "x@jsx\tq ", "@jsx\u00a0nb", "@JSX h", "@jsx h.x"]
    for c in cs:
        k = rng.below(4)
        t = rng.pick(texts)
        cm = ("/* %s */\n" % t) if "\n" in t or rng.chance(1, 2) else ("// %s\n" % t)
        if k == 0:
            c["src"] = cm + c["src"]
        elif k == 1:
            lines = c["src"].split("\n")
            pos = rng.below(len(lines))
            lines.insert(pos, cm.rstrip("\n"))
            c["src"] = "\n".join(lines)
        elif k == 2:
            c["src"] = c["src"] + "function inner() { /* @jsx never */ return <div/> }\n"
        c["feat"] = c["feat"] + ["comment-placement:%d" % k]
    return cs


# ---------------------------------------------------------------- resolveType (C16-C20)
OBJ_KINDS = {"object", "array", "date", "map", "set", "weakmap", "promise", "regexp", "error"}
ALL_KINDS = {"string", "number", "boolean", "bigint", "symbol", "null", "function"} | OBJ_KINDS


def vue_accepts(types, kind):
    """Vue's validateProp/assertType for a `type` option given as a list of constructor names (None = null)"""
    if types == [None]:
        return True                       # `type: null`: no check
    for t in types:
        if t is None:
            ok = kind == "null"
        elif t in ("String", "Number", "Boolean", "Symbol", "BigInt", "Function"):
            ok = kind == t.lower()
        elif t == "Object":
            ok = kind in OBJ_KINDS
        elif t == "Array":
            ok = kind == "array"
        else:
            ok = kind == t.lower()        # instanceof Date / Map / ...
        if ok:
            return True
    return False


def norm_key(k):
    kind, text = k
    if kind == "num":
        return text[:-2] if text.endswith(".0") else text
    return text


def dc_call(views, which):
    calls = (views or {}).get(which) or []
    return calls[0] if calls else None


def option_entries(call):
    """entries of the options object literal (2nd argument) or None"""
    if not call or len(call["args"]) < 2:
        return None
    a = call["args"][1]
    if isinstance(a, dict) and "object" in a:
        return a["object"]
    return None


def find_entry(entries, name):
    for i, e in enumerate(entries or []):
        if "key" in e and e["key"][0] in ("ident", "str") and e["key"][1] == name:
            return i, e
    return None, None


def user_wrote(entries, name):
    for e in entries or []:
        if "key" in e and e["key"][0] in ("ident", "str") and e["key"][1] == name:
            return True
        if e.get("shorthand") == name:
            return True
        if "member" in e:
            return None               # a getter/method whose name the view does not carry: undecided
    return False


def types_ctx(case, side, res):
    """common preconditions; returns (truth, real_call, input_call) or None when not applicable"""
    if side.get("status") != "ok" or not res or "views" not in res:
        return None
    t = case.get("truth")
    if not t:
        return None
    rc = dc_call(res["views"], "dc_real")
    ic = dc_call(res["views"], "dc_input")
    if rc is None or ic is None:
        return None
    return t, rc, ic


def resolve_on(case):
    return json.loads(case["options"]).get("resolveType", False)


def base_types_judge(case, side, res):
    v = make_judge(None, None, whole=True)(case, side, res)
    if res and "views" in res and res["views"].get("dc_same") is False:
        v["corr_ok"] = False; v["why"] = "defineComponent view of real and model output differ"
    return v


def judge_c16(case, side, res):
    v = base_types_judge(case, side, res)
    ctx = types_ctx(case, side, res)
    v["relevant"] = False
    if not ctx:
        return v
    t, rc, ic = ctx
    if not (t["augmentable"] and resolve_on(case) and t["setup"] in ("arrow", "function", "async") and t["first"] in ("typed", "destructured", "array")
            and not t["spreadargs"]):
        return v
    if user_wrote(option_entries(ic), "props") is not False:
        return v
    v["relevant"] = True
    ents = option_entries(rc)
    _, e = find_entry(ents, "props")
    if e is None or not isinstance(e["value"], dict) or e["value"].get("form") not in ("object", "mergeDefaults"):
        v["ok"] = False; v["oracle_why"] = "no derived `props` option in the real output"
        return v
    got = {}
    for pe in e["value"]["entries"]:
        if not isinstance(pe, dict):
            v["ok"] = False; v["oracle_why"] = "malformed props entry"; return v
        k = norm_key(pe["key"])
        if k in got:
            v["ok"] = False; v["oracle_why"] = "prop %r declared twice" % k; return v
        got[k] = pe["required"]
    want = {p[0]: p[1] for p in t["props"]}
    if got != want:
        v["ok"] = False
        v["oracle_why"] = "declared props %s but the call received %s" % (json.dumps(want, sort_keys=True), json.dumps(got, sort_keys=True))
        if t.get("getter_in_partial") and set(got) == set(want) and all(got[k] == want[k] or (got[k] is True and want[k] is True) for k in want if [p for p in t["props"] if p[0] == k][0][3] != "getter"):
            v["known"] = "partial_getter"
    return v


def judge_c19(case, side, res):
    v = base_types_judge(case, side, res)
    ctx = types_ctx(case, side, res)
    v["relevant"] = False
    if not ctx:
        return v
    t, rc, ic = ctx
    if not (t["augmentable"] and resolve_on(case) and t["setup"] in ("arrow", "function", "async") and not t["spreadargs"]):
        return v
    if user_wrote(option_entries(ic), "emits") is not False:
        return v
    v["relevant"] = True
    _, e = find_entry(option_entries(rc), "emits")
    if t["second"] in ("ctx", "destructured"):
        if e is None or not isinstance(e["value"], dict) or "emits" not in e["value"]:
            v["ok"] = False; v["oracle_why"] = "SetupContext<E> annotation but no derived `emits`"
        elif set(e["value"]["emits"]) != set(t["emits"]):
            v["ok"] = False; v["oracle_why"] = "declared events %s but the call received %s" % (sorted(t["emits"]), sorted(e["value"]["emits"]))
    else:
        if e is not None:
            v["ok"] = False; v["oracle_why"] = "no SetupContext<E> annotation but an `emits` option was added"
    return v


def judge_c17(case, side, res):
    v = base_types_judge(case, side, res)
    tg = (res or {}).get("ty_grammar")
    if tg and int(tg.split("/")[2]) > 0:
        # a parsed annotation inside the theorem's grammar on which the theorem's conclusion does not evaluate to true
        v["corr_ok"] = False
        v["why"] = "Spec/TyParse: conclusion of C17_accepts_every_inhabitant fails on an in-grammar annotation (%s)" % tg
    ctx = types_ctx(case, side, res)
    v["relevant"] = False
    if not ctx:
        return v
    t, rc, ic = ctx
    if not (t["augmentable"] and resolve_on(case)) or user_wrote(option_entries(ic), "props") is not False:
        return v
    _, e = find_entry(option_entries(rc), "props")
    if e is None or not isinstance(e["value"], dict) or "entries" not in e["value"]:
        return v
    by_key = {p[0]: p for p in t["props"]}
    for pe in e["value"]["entries"]:
        if not isinstance(pe, dict):
            continue
        p = by_key.get(norm_key(pe["key"]))
        if not p or p[2] is None:
            continue                      # outside the property's type grammar
        v["relevant"] = True
        # "with Boolean and String kept in declaration order"
        for tg in (p[5] if len(p) > 5 else []):
            if tg.startswith("order:"):
                first, second = tg[6:].split("<")
                ts = pe["type"] or []
                if first in ts and second in ts and ts.index(first) > ts.index(second):
                    v["ok"] = False
                    v.pop("known", None)
                    v["oracle_why"] = "prop %s: %s emits type %s, but %s is declared before %s" % (p[0], p[4], ts, first, second)
                    return v
        kinds = ALL_KINDS if p[2] == "ANY" else (ALL_KINDS - {"null"}) if p[2] == "NONNULL" else set(p[2]) - {"undefined"}
        bad = sorted(k for k in kinds if not vue_accepts(pe["type"], k))
        if bad:
            v["ok"] = False
            v["oracle_why"] = "prop %s: %s emits type %s, which rejects values of kind %s" % (p[0], p[4], pe["type"], bad)
            tags = p[5] if len(p) > 5 else []
            if bad == ["bigint"] and "bigint_lit" in tags and "Number" in (pe["type"] or []):
                v["known"] = "bigint_literal"
            elif "any" in tags and None in (pe["type"] or []) and len(pe["type"]) > 1:
                v["known"] = "union_with_any"
            elif "empty_obj" in tags and pe["type"] != [None]:
                v["known"] = "empty_object_in_union"
            elif "inherited_index" in tags and pe["type"] != [None]:
                v["known"] = "indexed_access_inherited_key"
            elif "unres_index" in tags and "union" in tags and pe["type"] != [None]:
                # alone, an indexed access the resolver cannot see through gets `type: null`; only next to
                # other union members is it dropped
                v["known"] = "unresolved_indexed_access_in_union"
            else:
                v.pop("known", None)
                return v
    return v


def judge_c18(case, side, res):
    v = base_types_judge(case, side, res)
    ctx = types_ctx(case, side, res)
    v["relevant"] = False
    if not ctx:
        return v
    t, rc, ic = ctx
    d = t.get("defaults") or {}
    if not (t["augmentable"] and resolve_on(case) and t["first"] == "typed" and t["setup"] in ("arrow", "function", "async") and not t["spreadargs"]):
        return v
    if user_wrote(option_entries(ic), "props") is not False:
        return v
    _, e = find_entry(option_entries(rc), "props")
    if e is None or not isinstance(e["value"], dict):
        return v
    v["relevant"] = True
    form = e["value"].get("form")
    if d.get("form") == "dynamic":
        if form != "mergeDefaults":
            v["ok"] = False; v["oracle_why"] = "the default object is not statically analysable but mergeDefaults is not used"
        elif any(isinstance(pe, dict) and pe.get("default") is not None for pe in e["value"]["entries"]):
            v["ok"] = False; v["oracle_why"] = "mergeDefaults used together with static defaults"
        return v
    if form != "object":
        v["ok"] = False; v["oracle_why"] = "static (or no) defaults but the props are wrapped in %s" % form
        return v
    per = d.get("per_key", {})
    for pe in e["value"]["entries"]:
        if not isinstance(pe, dict):
            continue
        k = norm_key(pe["key"])
        want = per.get(k)
        got = pe.get("default")
        if want is None:
            if got is not None:
                v["ok"] = False; v["oracle_why"] = "prop %s has no default but one was emitted" % k
            continue
        if got is None:
            v["ok"] = False; v["oracle_why"] = "prop %s: default %s was lost" % (k, want); continue
        is_fn_prop = pe["type"] == ["Function"]
        kind = want[0]
        shape = got[0]
        if kind == "literal":
            ok = shape == "literal"
        elif kind in ("expr", "shorthand"):
            ok = (shape == "other" or shape == "literal") if is_fn_prop else shape == "arrow-expr"
        elif kind == "fnvalue":
            ok = (shape in ("arrow-expr", "function", "arrow-block") and is_fn_prop) or (shape == "arrow-expr" and not is_fn_prop)
            if is_fn_prop and shape == "arrow-expr":
                # must be the written arrow itself: its body is the literal 1, not another function
                ok = isinstance(got[1], dict) and got[1].get("type") != "ArrowFunctionExpression" and got[1].get("type") != "FunctionExpression"
        elif kind == "getter":
            ok = shape == "arrow-block"
        elif kind == "method":
            ok = shape == "function"
        else:
            ok = True
        if not ok:
            v["ok"] = False
            v["oracle_why"] = "prop %s (type %s): default written as %s was emitted as %s" % (k, pe["type"], want, got[0])
    return v


def judge_c20(case, side, res):
    v = base_types_judge(case, side, res)
    ctx = types_ctx(case, side, res)
    v["relevant"] = False
    if not ctx:
        return v
    t, rc, ic = ctx
    v["relevant"] = True
    if not (t["prov"] == "named" and resolve_on(case)):
        if rc != ic:
            v["ok"] = False; v["oracle_why"] = "a call that is not Vue's defineComponent (provenance %s, resolveType %s) was changed" % (t["prov"], resolve_on(case))
        return v
    if t["spreadargs"]:
        if rc["args"] != ic["args"]:
            v["ok"] = False; v["oracle_why"] = "a spread argument list was modified"
        return v
    ients = option_entries(ic)
    rents = option_entries(rc)
    if ients is not None:
        # every entry the user wrote is still there, in order
        rest = [e for e in rents or [] if e in ients]
        if rest != ients:
            v["ok"] = False; v["oracle_why"] = "entries of the user's options object were dropped or reordered"
            return v
        for name in ("props", "emits", "name"):
            w = user_wrote(ients, name)
            cnt = sum(1 for e in rents if ("key" in e and e["key"][1] == name) or e.get("shorthand") == name)
            if w is True and cnt != 1:
                v["ok"] = False; v["oracle_why"] = "the user wrote `%s` but the output has %d entries for it" % (name, cnt)
                return v
        # derived entries must not follow a spread
        seen_spread = False
        for e in rents:
            if "spread" in e:
                seen_spread = True
            elif seen_spread and e not in ients:
                v["ok"] = False; v["oracle_why"] = "a derived option follows a spread of the user's options and overrides it"
                return v
    elif len(ic["args"]) >= 2 and ic["args"][1] == "expr":
        # options given as an expression: it must be spread last
        if rents is not None and not (rents and "spread" in rents[-1]):
            v["ok"] = False; v["oracle_why"] = "the user's options expression is not spread after the derived options"
    # the variable's name is given only to a directly declared component without a name of its own
    i, ne = find_entry(rents, "name")
    derived_name = ne is not None and (ients is None or user_wrote(ients, "name") is False) and isinstance(ne["value"], dict) and ne["value"].get("name") == "Comp"
    want_name = t["declkind"] in (0, 1, 2, 3) and len(ic["args"]) >= 1 and (ients is None or user_wrote(ients, "name") is False)
    if derived_name and not want_name:
        v["ok"] = False; v["oracle_why"] = "a component name was injected although the call is not the initialiser of a simple declaration"
    if want_name and not derived_name and not (len(ic["args"]) >= 2 and ic["args"][1] == "spread"):
        v["ok"] = False; v["oracle_why"] = "the declared variable's name was not given to the component"
    return v


def gen_types(seed, tier, start, quick=300, thorough=8000):
    return gen_cases.gen_types_cases(seed, quick if tier == "quick" else thorough, start)


# ---------------------------------------------------------------- site properties (C01-C05, C11)
def gen_sites(seed, tier, start, quick=500, thorough=12000):
    cs = gen_cases.gen_matrix_cases(start)
    cs = cs + gen_cases.gen_site_cases(seed, quick if tier == "quick" else thorough, start + len(cs))
    return cs + gen_modules(seed, tier, start + len(cs), 120, 3000)


def make_site_judge(pid, vkey=None):
    def judge(case, side, res):
        v = make_judge(None, vkey, whole=(vkey is None))(case, side, res)
        if case.get("stream") != "site":
            v["relevant"] = False
            return v
        if side.get("status") != "ok" or res is None or side.get("diags"):
            v["relevant"] = False
            return v
        tags = [t for t in res.get("site", "1").split(",") if t not in ("1", "none", "")]
        mine = [t for t in tags if t.startswith(pid + ":")]
        known = [t for t in tags if t.startswith("known:" + pid + ":")]
        if mine:
            v["ok"] = False
            v["oracle_why"] = "the source element and the real output disagree: " + ",".join(mine)
        elif known:
            v["ok"] = False
            v["known"] = known[0].split(":")[2]
            v["oracle_why"] = known[0]
        return v
    return judge


# ---------------------------------------------------------------- C10: a statement alone vs. inside a module
def gen_ctx(seed, tier, start, quick=500, thorough=12000):
    cs = gen_cases.gen_ctx_cases(seed, quick if tier == "quick" else thorough, start)
    return cs + gen_modules(seed, tier, start + len(cs), 100, 2000)


def judge_c10(case, side, res):
    v = make_judge(None, None, whole=True)(case, side, res)
    if case.get("stream") != "ctx":
        v["relevant"] = False
        return v
    if side.get("status") != "ok" or res is None:
        v["relevant"] = False
        return v
    r = res.get("alt_site", "none")
    if "output" in side:
        # what the statement evaluates to also depends on its temporaries being declared: inside the
        # module they must be bound exactly as when the statement stands alone (C06's analysis)
        opts = side.get("options") or {}
        errors, _ = scope_mod.analyse(side["output"], side.get("input"), side.get("unres"), [opts["pragma"]] if opts.get("pragma") else [])
        if errors:
            v["ok"] = False
            v["oracle_why"] = "inside the module a generated name is not bound as it is when the statement stands alone: " + ", ".join("%s `%s`" % e for e in sorted(set(errors))[:4])
            return v
    if r == "none":
        v["relevant"] = False
    elif r != "1":
        v["ok"] = False
        v["oracle_why"] = ("the probe statement is lowered differently inside the module than alone "
                           "(identifiers compared by what they denote; generated temporaries by order)")
    return v


# ---------------------------------------------------------------- C06: binding analysis of the real output
import scope as scope_mod


def gen_scope(seed, tier, start, quick=450, thorough=10000):
    cs = gen_cases.gen_scope_cases(seed, quick if tier == "quick" else thorough, start)
    return cs + gen_modules(seed, tier, start + len(cs), 100, 2000)


def judge_c06(case, side, res):
    v = make_judge(None, None, whole=True)(case, side, res)
    if case.get("stream") != "scope" or side.get("status") != "ok" or "output" not in side:
        v["relevant"] = False
        return v
    opts = side.get("options") or {}
    pragma = [opts["pragma"]] if opts.get("pragma") else []
    errors, known = scope_mod.analyse(side["output"], side.get("input"), side.get("unres"), pragma)
    if errors:
        v["ok"] = False
        v["oracle_why"] = "binding analysis of the real output: " + ", ".join("%s `%s`" % e for e in sorted(set(errors))[:6])
    elif known:
        v["ok"] = False
        v["known"] = known[0][0]
        v["oracle_why"] = "%s `%s`" % known[0]
    return v


def gen_c03(seed, tier, start):
    cs = gen_sites(seed, tier, start, 400, 10000)
    # call children in every kind of surrounding code (parameter defaults, class fields, nested
    # functions): the temporary that carries the value must be bound where it is used
    return cs + gen_cases.gen_scope_cases(seed, n_cases(tier, 150, 4000), start + len(cs))


def judge_c03(case, side, res):
    if case.get("stream") != "scope":
        return make_site_judge("C03")(case, side, res)
    v = make_judge(None, None, whole=True)(case, side, res)
    if side.get("status") != "ok" or "output" not in side:
        v["relevant"] = False
        return v
    opts = side.get("options") or {}
    pragma = [opts["pragma"]] if opts.get("pragma") else []
    errors, _known = scope_mod.analyse(side["output"], side.get("input"), side.get("unres"), pragma)
    bad = sorted(set(e for e in errors if e[0] in ("unbound", "used-before-declaration") and e[1].startswith("_slot")))
    if bad:
        v["ok"] = False
        v["oracle_why"] = ("the temporary that carries a call child's value is not bound where the slot expression uses it (the child is never delivered): "
                           + ", ".join("%s `%s`" % e for e in bad[:4]))
    return v


SITE_TRUST = ["Spec/Site.v + Spec/SiteCheck.v are this check's independent reading of what a JSX element denotes (type, contributions to the props in order, directives, children / slots); it is compared with the REAL output of probe modules `const __site = <element>`",
              "that the compared shapes evaluate as intended under JavaScript and Vue (object literal order, mergeProps, withDirectives, slot invocation) is argued in DESIGN.md, not proved"]

PROPS = {
    "C01": {"gen": gen_sites, "judge": make_site_judge("C01"), "trusted": SITE_TRUST, "assumptions": []},
    "C03": {"gen": gen_c03, "judge": judge_c03,
            "trusted": SITE_TRUST + ["a call child is delivered through a temporary (`_slot`): on the scope stream the binding analysis of tools/scope.py decides that the temporary is bound where the slot expression uses it"],
            "assumptions": []},
    "C04": {"gen": gen_sites, "judge": make_site_judge("C04"), "trusted": SITE_TRUST, "assumptions": []},
    "C05": {"gen": gen_sites, "judge": make_site_judge("C05"), "trusted": SITE_TRUST, "assumptions": []},
    "C11": {"gen": gen_sites, "judge": make_site_judge("C11"), "trusted": SITE_TRUST, "assumptions": []},
    "C06": {"gen": gen_scope, "judge": judge_c06,
            "trusted": ["tools/scope.py is this check's binding analysis of the visitor's raw output: identifier identity = name + syntax context as SWC's resolver and private_ident! leave it; block / function / class / catch scoping, hoisting of functions and imports, sequential initialisation of let/const, closures may see later declarations",
                        "name capture after printing is SWC's hygiene pass, outside the transform"],
            "assumptions": ["type-only positions are skipped; `var` hoisting out of nested blocks is not modelled (user code only)"]},
    "C10": {"gen": gen_ctx, "judge": judge_c10,
            "trusted": ["Spec/Context.v names identifiers by what they denote (vue import -> imported name, generated temporary -> order of first occurrence, other identifiers -> name + order of their scope); two lowerings equal under this naming evaluate alike provided C06 holds for the temporaries",
                        "the prefix / suffix statements never bind a name the probe references (generator invariant)"],
            "assumptions": ["pragma annotations are module-wide (C15) and are not used as distractors"]},
    "C16": {"gen": gen_types, "judge": judge_c16, "trusted": ["the expected prop map is the one the generator encoded (ground truth independent of the model)"], "assumptions": []},
    "C17": {"gen": gen_types, "judge": judge_c17, "trusted": ["tools/props.py:vue_accepts is this check's reading of Vue's validateProp/assertType; the kinds of each atom type are the generator's table"], "assumptions": []},
    "C18": {"gen": gen_types, "judge": judge_c18, "trusted": ["Vue's resolvePropValue: a function default is called as a factory unless the prop's type is exactly Function"], "assumptions": []},
    "C19": {"gen": gen_types, "judge": judge_c19, "trusted": ["the expected event set is the one the generator encoded"], "assumptions": []},
    "C20": {"gen": gen_types, "judge": judge_c20, "trusted": ["JavaScript object-literal semantics: later entries and spreads override earlier ones"], "assumptions": []},
    "C07": {
        "gen": lambda seed, tier, start: (lambda m: m + gen_modules(seed, tier, start + len(m), 300, 8000))(gen_cases.gen_matrix_cases(start)),
        "judge": judge_c07,
        "trusted": ["`printed output re-parses` is a statement about SWC's printer and parser, checked per case, not proved"],
        "assumptions": ["module level: C07_module_is_jsx_free proves the model's whole transform JSX-free for every grammatical module (Spec/Plain.gram, re-checked on every parsed input of the run) with the resolveType hooks as hypotheses; those hypotheses are discharged when the option is off, with it on the census of the real output of each case covers the hooks"],
    },
    "C08": {
        "gen": lambda seed, tier, start: (lambda m: m + gen_modules(seed, tier, start + len(m), 260, 6000))(gen_cases.gen_matrix_cases(start))
                                         + gen_cases.gen_types_cases(seed, 160 if tier == "quick" else 3000, start + 10000)
                                         + gen_cases.gen_cyclic_cases(start + 20000),
        "judge": judge_c08,
        "extra": c08_fresh_process_extra,
        "trusted": ["stack depth, wall-clock time and process-level nondeterminism cannot be exhibited by a Gallina model; they are covered by the harness's child-process runs only"],
        "assumptions": ["lints: no clock/env/random/thread/static state, registries never iterated"],
    },
    "C09": {"gen": gen_c09, "judge": judge_c09,
            "trusted": ["real-world corpus: 70 JSX-free files taken from the sandbox's npm installation (corpus/jsfree)"],
            "assumptions": ["idempotence is decided on the real second pass of every case; as a theorem it is only available through C09_identity for outputs that are JSX-free"]},
    "C12": {"gen": gen_pairs_optimize,
            "judge": lambda c, s, r: (lambda v: (v.update({"ok": False, "oracle_why": "erasing the hints of the optimize=true output does not give the optimize=false output"}) or v) if (r and s.get("status") == "ok" and r.get("alt_strip", "1") != "1") else v)(make_judge(None, None, whole=True)(c, s, r)),
            "trusted": ["Spec/OutViews.strip_hints is this check's definition of `erasing hint arguments`"],
            "assumptions": ["module-level equality is decided on paired real runs; the theorems cover the pieces of the lowering"]},
    "C14": {"gen": gen_c14, "judge": judge_c14,
            "trusted": ["serde / serde_json / regex are exercised, not verified; Model/Options.v is a model of serde's derive output"],
            "assumptions": ["feature classification of generated modules comes from the generator's own feature vector"]},
    "C15": {"gen": gen_c15, "judge": make_judge("oC15", "vC15"),
            "trusted": ["modules whose annotations disagree are outside the claim (the code's last-one-wins rule is modelled, not claimed)"],
            "assumptions": []},
    "C13": {
        "gen": gen_c13,
        "judge": judge_c13,
        "trusted": ["Spec/PatchFlags.v is this check's reading of Vue's patch-flag contract (shouldUpdateComponent / patchElement use of CLASS, STYLE, PROPS, FULL_PROPS, dynamicProps)",
                    "Spec/SlotFlag.dyn_text is this check's reading of `a slot's direct children ... reached by direct JSX nesting`; Spec/SlotFlagCheck.flags_site pairs nested source elements with output calls as Spec/SiteCheck does"],
        "assumptions": ["the slot-flag clause is decided on probe elements (`const __site = <element>`) of the site stream; in whole modules it is covered by the correspondence (slot objects are in the C13 view) and the theorems C13_slot_flags_propagate / C13_slot_flag_is_dyn about the model"],
    },
    "C02": {
        "gen": lambda seed, tier, start: gen_sites(seed, tier, start, 400, 10000),
        "judge": make_site_judge("C02"),
        "extra": c02_text_extra,
        "trusted": ["Spec/JsxText.jsx_clean is the reading of 'the standard JSX rule' this check uses"],
        "assumptions": ["children part: whole-output correspondence + structural theorems about transform_children; Vue's createTextVNode is the runtime's"],
    },
}
