#!/bin/bash
# usage: sweep.sh <tier> <seed>...   -- run every check on the current tree for the given seeds; keeps
# the committed evidence files as they are; one sweep at a time (lock)
cd /verif
exec 9>/verif/work/.sweep.lock
flock -n 9 || { echo "another sweep is running"; exit 1; }
tier=$1; shift
for sd in "$@"; do
  for t in C01 C02 C03 C04 C05 C06 C07 C08 C09 C10 C11 C12 C13 C14 C15 C16 C17 C18 C19 C20; do
    cp evidence/$t.json work/ev_keep_$t.json
    VERIF_SEED=$sd bin/vp check $t $tier > work/sw_${tier}_${sd}_$t.out 2>&1
    echo "tier=$tier seed=$sd $t rc=$? $(grep VIOLATION work/sw_${tier}_${sd}_$t.out | head -1)" >> work/sweep.log
    cp work/ev_keep_$t.json evidence/$t.json
  done
done
echo "sweep $tier $* done" >> work/sweep.log
