'use strict';
const stringWidth = require('string-width');
const stripAnsi = require('strip-ansi');
const ansiStyles = require('ansi-styles');

const ESCAPES = new Set([
	'\u001B',
	'\u009B'
]);

const END_CODE = 39;

const ANSI_ESCAPE_BELL = '\u0007';
const ANSI_CSI = '[';
const ANSI_OSC = ']';
const ANSI_SGR_TERMINATOR = 'm';
const ANSI_ESCAPE_LINK = `${ANSI_OSC}8;;`;

const wrapAnsi = code => `${ESCAPES.values().next().value}${ANSI_CSI}${code}${ANSI_SGR_TERMINATOR}`;
const wrapAnsiHyperlink = uri => `${ESCAPES.values().next().value}${ANSI_ESCAPE_LINK}${uri}${ANSI_ESCAPE_BELL}`;

// Calculate the length of words split on ' ', ignoring
// the extra characters added by ansi escape codes
const wordLengths = string => string.split(' ').map(character => stringWidth(character));

// Wrap a long word across multiple rows
// Ansi escape codes do not count towards length
const wrapWord = (rows, word, columns) => {
	const characters = [...word];

	let isInsideEscape = false;
	let isInsideLinkEscape = false;
	let visible = stringWidth(stripAnsi(rows[rows.length - 1]));

	for (const [index, character] of characters.entries()) {
		const characterLength = stringWidth(character);

		if (visible + characterLength <= columns) {
			rows[rows.length - 1] += character;
		} else {
			rows.push(character);
			visible = 0;
		}

		if (ESCAPES.has(character)) {
			isInsideEscape = true;
			isInsideLinkEscape = characters.slice(index + 1).join('').startsWith(ANSI_ESCAPE_LINK);
		}

		if (isInsideEscape) {
			if (isInsideLinkEscape) {
				if (character === ANSI_ESCAPE_BELL) {
					isInsideEscape = false;
					isInsideLinkEscape = false;
				}
			} else if (character === ANSI_SGR_TERMINATOR) {
				isInsideEscape = false;
			}

			continue;
		}

		visible += characterLength;

		if (visible === columns && index < characters.length - 1) {
			rows.push('');
			visible = 0;
		}
	}

	// It's possible that the last row we copy over is only
	// ansi escape characters, handle this edge-case
	if (!visible && rows[rows.length - 1].length > 0 && rows.length > 1) {
		rows[rows.length - 2] += rows.pop();
	}
};

// Trims spaces from a string ignoring invisible sequences
const stringVisibleTrimSpacesRight = string => {
	const words = string.split(' ');
	let last = words.length;

	while (last > 0) {
		if (stringWidth(words[last - 1]) > 0) {
			break;
		}

		last--;
	}

	if (last === words.length) {
		return string;
	}

	return words.slice(0, last).join(' ') + words.slice(last).join('');
};

// The wrap-ansi module can be invoked in either 'hard' or 'soft' wrap mode
//
// 'hard' will never allow a string to take up more than columns characters
//
// 'soft' allows long words to expand past the column length
const exec = (string, columns, options = {}) => {
	if (options.trim !== false && string.trim() === '') {
		return '';
	}

	let returnValue = '';
	let escapeCode;
	let escapeUrl;

	const lengths = wordLengths(string);
	let rows = [''];

	for (const [index, word] of string.split(' ').entries()) {
		if (options.trim !== false) {
			rows[rows.length - 1] = rows[rows.length - 1].trimStart();
		}

		let rowLength = stringWidth(rows[rows.length - 1]);

		if (index !== 0) {
			if (rowLength >= columns && (options.wordWrap === false || options.trim === false)) {
				// If we start with a new word but the current row length equals the length of the columns, add a new row
				rows.push('');
				rowLength = 0;
			}

			if (rowLength > 0 || options.trim === false) {
				rows[rows.length - 1] += ' ';
				rowLength++;
			}
		}

		// In 'hard' wrap mode, the length of a line is never allowed to extend past 'columns'
		if (options.hard && lengths[index] > columns) {
			const remainingColumns = (columns - rowLength);
			const breaksStartingThisLine = 1 + Math.floor((lengths[index] - remainingColumns - 1) / columns);
			const breaksStartingNextLine = Math.floor((lengths[index] - 1) / columns);
			if (breaksStartingNextLine < breaksStartingThisLine) {
				rows.push('');
			}

			wrapWord(rows, word, columns);
			continue;
		}

		if (rowLength + lengths[index] > columns && rowLength > 0 && lengths[index] > 0) {
			if (options.wordWrap === false && rowLength < columns) {
				wrapWord(rows, word, columns);
				continue;
			}

			rows.push('');
		}

		if (rowLength + lengths[index] > columns && options.wordWrap === false) {
			wrapWord(rows, word, columns);
			continue;
		}

		rows[rows.length - 1] += word;
	}

	if (options.trim !== false) {
		rows = rows.map(stringVisibleTrimSpacesRight);
	}

	const pre = [...rows.join('\n')];

	for (const [index, character] of pre.entries()) {
		returnValue += character;

		if (ESCAPES.has(character)) {
			const {groups} = new RegExp(`(?:\\${ANSI_CSI}(?<code>\\d+)m|\\${ANSI_ESCAPE_LINK}(?<uri>.*)${ANSI_ESCAPE_BELL})`).exec(pre.slice(index).join('')) || {groups: {}};
			if (groups.code !== undefined) {
				const code = Number.parseFloat(groups.code);
				escapeCode = code === END_CODE ? undefined : code;
			} else if (groups.uri !== undefined) {
				escapeUrl = groups.uri.length === 0 ? undefined : groups.uri;
			}
		}

		const code = ansiStyles.codes.get(Number(escapeCode));

		if (pre[index + 1] === '\n') {
			if (escapeUrl) {
				returnValue += wrapAnsiHyperlink('');
			}

			if (escapeCode && code) {
				returnValue += wrapAnsi(code);
			}
		} else if (character === '\n') {
			if (escapeCode && code) {
				returnValue += wrapAnsi(escapeCode);
			}

			if (escapeUrl) {
				returnValue += wrapAnsiHyperlink(escapeUrl);
			}
		}
	}

	return returnValue;
};

// For each newline, invoke the method separately
module.exports = (string, columns, options) => {
	return String(string)
		.normalize()
		.replace(/\r\n/g, '\n')
		.split('\n')
		.map(line => exec(line, columns, options))
		.join('\n');
};
