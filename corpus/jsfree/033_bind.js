"use strict";
module.exports = function(Promise, INTERNAL, tryConvertToPromise, debug) {
var calledBind = false;
var rejectThis = function(_, e) {
    this._reject(e);
};

var targetRejected = function(e, context) {
    context.promiseRejectionQueued = true;
    context.bindingPromise._then(rejectThis, rejectThis, null, this, e);
};

var bindingResolved = function(thisArg, context) {
    if (((this._bitField & 50397184) === 0)) {
        this._resolveCallback(context.target);
    }
};

var bindingRejected = function(e, context) {
    if (!context.promiseRejectionQueued) this._reject(e);
};

Promise.prototype.bind = function (thisArg) {
    if (!calledBind) {
        calledBind = true;
        Promise.prototype._propagateFrom = debug.propagateFromFunction();
        Promise.prototype._boundValue = debug.boundValueFunction();
    }
    var maybePromise = tryConvertToPromise(thisArg);
    var ret = new Promise(INTERNAL);
    ret._propagateFrom(this, 1);
    var target = this._target();
    ret._setBoundTo(maybePromise);
    if (maybePromise instanceof Promise) {
        var context = {
            promiseRejectionQueued: false,
            promise: ret,
            target: target,
            bindingPromise: maybePromise
        };
        target._then(INTERNAL, targetRejected, undefined, ret, context);
        maybePromise._then(
            bindingResolved, bindingRejected, undefined, ret, context);
        ret._setOnCancel(maybePromise);
    } else {
        ret._resolveCallback(target);
    }
    return ret;
};

Promise.prototype._setBoundTo = function (obj) {
    if (obj !== undefined) {
        this._bitField = this._bitField | 2097152;
        this._boundTo = obj;
    } else {
        this._bitField = this._bitField & (~2097152);
    }
};

Promise.prototype._isBound = function () {
    return (this._bitField & 2097152) === 2097152;
};

Promise.bind = function (thisArg, value) {
    return Promise.resolve(value).bind(thisArg);
};
};
