const { resolve } = require('node:path')
const { stat, chmod } = require('node:fs/promises')
const cacache = require('cacache')
const fsm = require('fs-minipass')
const Fetcher = require('./fetcher.js')
const _ = require('./util/protected.js')

class FileFetcher extends Fetcher {
  constructor (spec, opts) {
    super(spec, opts)
    // just the fully resolved filename
    this.resolved = this.spec.fetchSpec
  }

  get types () {
    return ['file']
  }

  manifest () {
    if (this.package) {
      return Promise.resolve(this.package)
    }

    // have to unpack the tarball for this.
    return cacache.tmp.withTmp(this.cache, this.opts, dir =>
      this.extract(dir)
        .then(() => this[_.readPackageJson](dir))
        .then(mani => this.package = {
          ...mani,
          _integrity: this.integrity && String(this.integrity),
          _resolved: this.resolved,
          _from: this.from,
        }))
  }

  #exeBins (pkg, dest) {
    if (!pkg.bin) {
      return Promise.resolve()
    }

    return Promise.all(Object.keys(pkg.bin).map(async k => {
      const script = resolve(dest, pkg.bin[k])
      // Best effort.  Ignore errors here, the only result is that
      // a bin script is not executable.  But if it's missing or
      // something, we just leave it for a later stage to trip over
      // when we can provide a more useful contextual error.
      try {
        const st = await stat(script)
        const mode = st.mode | 0o111
        if (mode === st.mode) {
          return
        }
        await chmod(script, mode)
      } catch {
        // Ignore errors here
      }
    }))
  }

  extract (dest) {
    // if we've already loaded the manifest, then the super got it.
    // but if not, read the unpacked manifest and chmod properly.
    return super.extract(dest)
      .then(result => this.package ? result
      : this[_.readPackageJson](dest).then(pkg =>
        this.#exeBins(pkg, dest)).then(() => result))
  }

  [_.tarballFromResolved] () {
    // create a read stream and return it
    return new fsm.ReadStream(this.resolved)
  }

  packument () {
    // simulate based on manifest
    return this.manifest().then(mani => ({
      name: mani.name,
      'dist-tags': {
        [this.defaultTag]: mani.version,
      },
      versions: {
        [mani.version]: {
          ...mani,
          dist: {
            tarball: `file:${this.resolved}`,
            integrity: this.integrity && String(this.integrity),
          },
        },
      },
    }))
  }
}

module.exports = FileFetcher
