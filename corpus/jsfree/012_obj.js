"use strict";
Object.defineProperty(exports, "__esModule", { value: true });
exports.ASN1Obj = void 0;
/*
Copyright 2023 The Sigstore Authors.

Licensed under the Apache License, Version 2.0 (the "License");
you may not use this file except in compliance with the License.
You may obtain a copy of the License at

    http://www.apache.org/licenses/LICENSE-2.0

Unless required by applicable law or agreed to in writing, software
distributed under the License is distributed on an "AS IS" BASIS,
WITHOUT WARRANTIES OR CONDITIONS OF ANY KIND, either express or implied.
See the License for the specific language governing permissions and
limitations under the License.
*/
const stream_1 = require("../stream");
const error_1 = require("./error");
const length_1 = require("./length");
const parse_1 = require("./parse");
const tag_1 = require("./tag");
class ASN1Obj {
    constructor(tag, value, subs) {
        this.tag = tag;
        this.value = value;
        this.subs = subs;
    }
    // Constructs an ASN.1 object from a Buffer of DER-encoded bytes.
    static parseBuffer(buf) {
        return parseStream(new stream_1.ByteStream(buf));
    }
    toDER() {
        const valueStream = new stream_1.ByteStream();
        if (this.subs.length > 0) {
            for (const sub of this.subs) {
                valueStream.appendView(sub.toDER());
            }
        }
        else {
            valueStream.appendView(this.value);
        }
        const value = valueStream.buffer;
        // Concat tag/length/value
        const obj = new stream_1.ByteStream();
        obj.appendChar(this.tag.toDER());
        obj.appendView((0, length_1.encodeLength)(value.length));
        obj.appendView(value);
        return obj.buffer;
    }
    /////////////////////////////////////////////////////////////////////////////
    // Convenience methods for parsing ASN.1 primitives into JS types
    // Returns the ASN.1 object's value as a boolean. Throws an error if the
    // object is not a boolean.
    toBoolean() {
        if (!this.tag.isBoolean()) {
            throw new error_1.ASN1TypeError('not a boolean');
        }
        return (0, parse_1.parseBoolean)(this.value);
    }
    // Returns the ASN.1 object's value as a BigInt. Throws an error if the
    // object is not an integer.
    toInteger() {
        if (!this.tag.isInteger()) {
            throw new error_1.ASN1TypeError('not an integer');
        }
        return (0, parse_1.parseInteger)(this.value);
    }
    // Returns the ASN.1 object's value as an OID string. Throws an error if the
    // object is not an OID.
    toOID() {
        if (!this.tag.isOID()) {
            throw new error_1.ASN1TypeError('not an OID');
        }
        return (0, parse_1.parseOID)(this.value);
    }
    // Returns the ASN.1 object's value as a Date. Throws an error if the object
    // is not either a UTCTime or a GeneralizedTime.
    toDate() {
        switch (true) {
            case this.tag.isUTCTime():
                return (0, parse_1.parseTime)(this.value, true);
            case this.tag.isGeneralizedTime():
                return (0, parse_1.parseTime)(this.value, false);
            default:
                throw new error_1.ASN1TypeError('not a date');
        }
    }
    // Returns the ASN.1 object's value as a number[] where each number is the
    // value of a bit in the bit string. Throws an error if the object is not a
    // bit string.
    toBitString() {
        if (!this.tag.isBitString()) {
            throw new error_1.ASN1TypeError('not a bit string');
        }
        return (0, parse_1.parseBitString)(this.value);
    }
}
exports.ASN1Obj = ASN1Obj;
/////////////////////////////////////////////////////////////////////////////
// Internal stream parsing functions
function parseStream(stream) {
    // Parse tag, length, and value from stream
    const tag = new tag_1.ASN1Tag(stream.getUint8());
    const len = (0, length_1.decodeLength)(stream);
    const value = stream.slice(stream.position, len);
    const start = stream.position;
    let subs = [];
    // If the object is constructed, parse its children. Sometimes, children
    // are embedded in OCTESTRING objects, so we need to check those
    // for children as well.
    if (tag.constructed) {
        subs = collectSubs(stream, len);
    }
    else if (tag.isOctetString()) {
        // Attempt to parse children of OCTETSTRING objects. If anything fails,
        // assume the object is not constructed and treat as primitive.
        try {
            subs = collectSubs(stream, len);
        }
        catch (e) {
            // Fail silently and treat as primitive
        }
    }
    // If there are no children, move stream cursor to the end of the object
    if (subs.length === 0) {
        stream.seek(start + len);
    }
    return new ASN1Obj(tag, value, subs);
}
function collectSubs(stream, len) {
    // Calculate end of object content
    const end = stream.position + len;
    // Make sure there are enough bytes left in the stream. This should never
    // happen, cause it'll get caught when the stream is sliced in parseStream.
    // Leaving as an extra check just in case.
    /* istanbul ignore if */
    if (end > stream.length) {
        throw new error_1.ASN1ParseError('invalid length');
    }
    // Parse all children
    const subs = [];
    while (stream.position < end) {
        subs.push(parseStream(stream));
    }
    // When we're done parsing children, we should be at the end of the object
    if (stream.position !== end) {
        throw new error_1.ASN1ParseError('invalid length');
    }
    return subs;
}
