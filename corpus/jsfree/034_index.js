'use strict';
const path = require('path');
const locatePath = require('locate-path');

module.exports = (filename, opts = {}) => {
	const startDir = path.resolve(opts.cwd || '');
	const {root} = path.parse(startDir);

	const filenames = [].concat(filename);

	return new Promise(resolve => {
		(function find(dir) {
			locatePath(filenames, {cwd: dir}).then(file => {
				if (file) {
					resolve(path.join(dir, file));
				} else if (dir === root) {
					resolve(null);
				} else {
					find(path.dirname(dir));
				}
			});
		})(startDir);
	});
};

module.exports.sync = (filename, opts = {}) => {
	let dir = path.resolve(opts.cwd || '');
	const {root} = path.parse(dir);

	const filenames = [].concat(filename);

	// eslint-disable-next-line no-constant-condition
	while (true) {
		const file = locatePath.sync(filenames, {cwd: dir});

		if (file) {
			return path.join(dir, file);
		}

		if (dir === root) {
			return null;
		}

		dir = path.dirname(dir);
	}
};
