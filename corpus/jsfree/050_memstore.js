/*!
 * Copyright (c) 2015, Salesforce.com, Inc.
 * All rights reserved.
 *
 * Redistribution and use in source and binary forms, with or without
 * modification, are permitted provided that the following conditions are met:
 *
 * 1. Redistributions of source code must retain the above copyright notice,
 * this list of conditions and the following disclaimer.
 *
 * 2. Redistributions in binary form must reproduce the above copyright notice,
 * this list of conditions and the following disclaimer in the documentation
 * and/or other materials provided with the distribution.
 *
 * 3. Neither the name of Salesforce.com nor the names of its contributors may
 * be used to endorse or promote products derived from this software without
 * specific prior written permission.
 *
 * THIS SOFTWARE IS PROVIDED BY THE COPYRIGHT HOLDERS AND CONTRIBUTORS "AS IS"
 * AND ANY EXPRESS OR IMPLIED WARRANTIES, INCLUDING, BUT NOT LIMITED TO, THE
 * IMPLIED WARRANTIES OF MERCHANTABILITY AND FITNESS FOR A PARTICULAR PURPOSE
 * ARE DISCLAIMED. IN NO EVENT SHALL THE COPYRIGHT HOLDER OR CONTRIBUTORS BE
 * LIABLE FOR ANY DIRECT, INDIRECT, INCIDENTAL, SPECIAL, EXEMPLARY, OR
 * CONSEQUENTIAL DAMAGES (INCLUDING, BUT NOT LIMITED TO, PROCUREMENT OF
 * SUBSTITUTE GOODS OR SERVICES; LOSS OF USE, DATA, OR PROFITS; OR BUSINESS
 * INTERRUPTION) HOWEVER CAUSED AND ON ANY THEORY OF LIABILITY, WHETHER IN
 * CONTRACT, STRICT LIABILITY, OR TORT (INCLUDING NEGLIGENCE OR OTHERWISE)
 * ARISING IN ANY WAY OUT OF THE USE OF THIS SOFTWARE, EVEN IF ADVISED OF THE
 * POSSIBILITY OF SUCH DAMAGE.
 */
'use strict';
var Store = require('./store').Store;
var permuteDomain = require('./permuteDomain').permuteDomain;
var pathMatch = require('./pathMatch').pathMatch;
var util = require('util');

function MemoryCookieStore() {
  Store.call(this);
  this.idx = {};
}
util.inherits(MemoryCookieStore, Store);
exports.MemoryCookieStore = MemoryCookieStore;
MemoryCookieStore.prototype.idx = null;

// Since it's just a struct in RAM, this Store is synchronous
MemoryCookieStore.prototype.synchronous = true;

// force a default depth:
MemoryCookieStore.prototype.inspect = function() {
  return "{ idx: "+util.inspect(this.idx, false, 2)+' }';
};

// Use the new custom inspection symbol to add the custom inspect function if
// available.
if (util.inspect.custom) {
  MemoryCookieStore.prototype[util.inspect.custom] = MemoryCookieStore.prototype.inspect;
}

MemoryCookieStore.prototype.findCookie = function(domain, path, key, cb) {
  if (!this.idx[domain]) {
    return cb(null,undefined);
  }
  if (!this.idx[domain][path]) {
    return cb(null,undefined);
  }
  return cb(null,this.idx[domain][path][key]||null);
};

MemoryCookieStore.prototype.findCookies = function(domain, path, cb) {
  var results = [];
  if (!domain) {
    return cb(null,[]);
  }

  var pathMatcher;
  if (!path) {
    // null means "all paths"
    pathMatcher = function matchAll(domainIndex) {
      for (var curPath in domainIndex) {
        var pathIndex = domainIndex[curPath];
        for (var key in pathIndex) {
          results.push(pathIndex[key]);
        }
      }
    };

  } else {
    pathMatcher = function matchRFC(domainIndex) {
       //NOTE: we should use path-match algorithm from S5.1.4 here
       //(see : https://github.com/ChromiumWebApps/chromium/blob/b3d3b4da8bb94c1b2e061600df106d590fda3620/net/cookies/canonical_cookie.cc#L299)
       Object.keys(domainIndex).forEach(function (cookiePath) {
         if (pathMatch(path, cookiePath)) {
           var pathIndex = domainIndex[cookiePath];

           for (var key in pathIndex) {
             results.push(pathIndex[key]);
           }
         }
       });
     };
  }

  var domains = permuteDomain(domain) || [domain];
  var idx = this.idx;
  domains.forEach(function(curDomain) {
    var domainIndex = idx[curDomain];
    if (!domainIndex) {
      return;
    }
    pathMatcher(domainIndex);
  });

  cb(null,results);
};

MemoryCookieStore.prototype.putCookie = function(cookie, cb) {
  if (!this.idx[cookie.domain]) {
    this.idx[cookie.domain] = {};
  }
  if (!this.idx[cookie.domain][cookie.path]) {
    this.idx[cookie.domain][cookie.path] = {};
  }
  this.idx[cookie.domain][cookie.path][cookie.key] = cookie;
  cb(null);
};

MemoryCookieStore.prototype.updateCookie = function(oldCookie, newCookie, cb) {
  // updateCookie() may avoid updating cookies that are identical.  For example,
  // lastAccessed may not be important to some stores and an equality
  // comparison could exclude that field.
  this.putCookie(newCookie,cb);
};

MemoryCookieStore.prototype.removeCookie = function(domain, path, key, cb) {
  if (this.idx[domain] && this.idx[domain][path] && this.idx[domain][path][key]) {
    delete this.idx[domain][path][key];
  }
  cb(null);
};

MemoryCookieStore.prototype.removeCookies = function(domain, path, cb) {
  if (this.idx[domain]) {
    if (path) {
      delete this.idx[domain][path];
    } else {
      delete this.idx[domain];
    }
  }
  return cb(null);
};

MemoryCookieStore.prototype.getAllCookies = function(cb) {
  var cookies = [];
  var idx = this.idx;

  var domains = Object.keys(idx);
  domains.forEach(function(domain) {
    var paths = Object.keys(idx[domain]);
    paths.forEach(function(path) {
      var keys = Object.keys(idx[domain][path]);
      keys.forEach(function(key) {
        if (key !== null) {
          cookies.push(idx[domain][path][key]);
        }
      });
    });
  });

  // Sort by creationIndex so deserializing retains the creation order.
  // When implementing your own store, this SHOULD retain the order too
  cookies.sort(function(a,b) {
    return (a.creationIndex||0) - (b.creationIndex||0);
  });

  cb(null, cookies);
};
