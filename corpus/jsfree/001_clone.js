'use strict'

module.exports = clone

var getPrototypeOf = Object.getPrototypeOf || function (obj) {
  return obj.__proto__
}

function clone (obj) {
  if (obj === null || typeof obj !== 'object')
    return obj

  if (obj instanceof Object)
    var copy = { __proto__: getPrototypeOf(obj) }
  else
    var copy = Object.create(null)

  Object.getOwnPropertyNames(obj).forEach(function (key) {
    Object.defineProperty(copy, key, Object.getOwnPropertyDescriptor(obj, key))
  })

  return copy
}
