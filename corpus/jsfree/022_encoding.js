/**
 * @license
 * Copyright 2024 Google Inc.
 * SPDX-License-Identifier: Apache-2.0
 */
/**
 * @internal
 */
export function stringToTypedArray(string, base64Encoded = false) {
    if (base64Encoded) {
        if ('fromBase64' in Uint8Array) {
            // @ts-expect-error fromBase64 is newer than the types we use.
            return Uint8Array.fromBase64(string);
        }
        // TODO: remove Buffer in v26 when it becomes LTS.
        if (typeof Buffer === 'function') {
            return Buffer.from(string, 'base64');
        }
        return Uint8Array.from(atob(string), m => {
            return m.codePointAt(0);
        });
    }
    return new TextEncoder().encode(string);
}
/**
 * @internal
 */
export function stringToBase64(str) {
    return typedArrayToBase64(new TextEncoder().encode(str));
}
/**
 * @internal
 */
export function typedArrayToBase64(typedArray) {
    // chunkSize should be less V8 limit on number of arguments!
    // https://github.com/v8/v8/blob/d3de848bea727518aee94dd2fd42ba0b62037a27/src/objects/code.h#L444
    const chunkSize = 65534;
    const chunks = [];
    for (let i = 0; i < typedArray.length; i += chunkSize) {
        const chunk = typedArray.subarray(i, i + chunkSize);
        chunks.push(String.fromCodePoint.apply(null, chunk));
    }
    const binaryString = chunks.join('');
    return btoa(binaryString);
}
/**
 * @internal
 */
export function mergeUint8Arrays(items) {
    let length = 0;
    for (const item of items) {
        length += item.length;
    }
    // Create a new array with total length and merge all source arrays.
    const result = new Uint8Array(length);
    let offset = 0;
    for (const item of items) {
        result.set(item, offset);
        offset += item.length;
    }
    return result;
}
//# sourceMappingURL=encoding.js.map