// This is separate to indicate that it should contain code we expect to work in
// all versions of node >= 6.  This is a best effort to catch syntax errors to
// give users a good error message if they are using a node version that doesn't
// allow syntax we are using such as private properties, etc. This file is
// linted with ecmaVersion=6 so we don't use invalid syntax, which is set in the
// .eslintrc.local.json file

const { engines: { node: engines }, version } = require('../../package.json')
const npm = `v${version}`

module.exports = (process, getCli) => {
  const node = process.version

  /* eslint-disable-next-line max-len */
  const unsupportedMessage = `npm ${npm} does not support Node.js ${node}. This version of npm supports the following node versions: \`${engines}\`. You can find the latest version at https://nodejs.org/.`

  /* eslint-disable-next-line max-len */
  const brokenMessage = `ERROR: npm ${npm} is known not to run on Node.js ${node}.  This version of npm supports the following node versions: \`${engines}\`. You can find the latest version at https://nodejs.org/.`

  // coverage ignored because this is only hit in very unsupported node versions
  // and it's a best effort attempt to show something nice in those cases
  /* istanbul ignore next */
  const syntaxErrorHandler = (err) => {
    if (err instanceof SyntaxError) {
      // eslint-disable-next-line no-console
      console.error(`${brokenMessage}\n\nERROR:`)
      // eslint-disable-next-line no-console
      console.error(err)
      return process.exit(1)
    }
    throw err
  }

  process.on('uncaughtException', syntaxErrorHandler)
  process.on('unhandledRejection', syntaxErrorHandler)

  // require this only after setting up the error handlers
  const cli = getCli()
  return cli(process, {
    node,
    npm,
    engines,
    unsupportedMessage,
    off: () => {
      process.off('uncaughtException', syntaxErrorHandler)
      process.off('unhandledRejection', syntaxErrorHandler)
    },
  })
}
