
/**
 * This is the common logic for both the Node.js and web browser
 * implementations of `debug()`.
 *
 * Expose `debug()` as the module.
 */

exports = module.exports = createDebug.debug = createDebug['default'] = createDebug;
exports.coerce = coerce;
exports.disable = disable;
exports.enable = enable;
exports.enabled = enabled;
exports.humanize = require('ms');

/**
 * Active `debug` instances.
 */
exports.instances = [];

/**
 * The currently active debug mode names, and names to skip.
 */

exports.names = [];
exports.skips = [];

/**
 * Map of special "%n" handling functions, for the debug "format" argument.
 *
 * Valid key names are a single, lower or upper-case letter, i.e. "n" and "N".
 */

exports.formatters = {};

/**
 * Select a color.
 * @param {String} namespace
 * @return {Number}
 * @api private
 */

function selectColor(namespace) {
  var hash = 0, i;

  for (i in namespace) {
    hash  = ((hash << 5) - hash) + namespace.charCodeAt(i);
    hash |= 0; // Convert to 32bit integer
  }

  return exports.colors[Math.abs(hash) % exports.colors.length];
}

/**
 * Create a debugger with the given `namespace`.
 *
 * @param {String} namespace
 * @return {Function}
 * @api public
 */

function createDebug(namespace) {

  var prevTime;

  function debug() {
    // disabled?
    if (!debug.enabled) return;

    var self = debug;

    // set `diff` timestamp
    var curr = +new Date();
    var ms = curr - (prevTime || curr);
    self.diff = ms;
    self.prev = prevTime;
    self.curr = curr;
    prevTime = curr;

    // turn the `arguments` into a proper Array
    var args = new Array(arguments.length);
    for (var i = 0; i < args.length; i++) {
      args[i] = arguments[i];
    }

    args[0] = exports.coerce(args[0]);

    if ('string' !== typeof args[0]) {
      // anything else let's inspect with %O
      args.unshift('%O');
    }

    // apply any `formatters` transformations
    var index = 0;
    args[0] = args[0].replace(/%([a-zA-Z%])/g, function(match, format) {
      // if we encounter an escaped % then don't increase the array index
      if (match === '%%') return match;
      index++;
      var formatter = exports.formatters[format];
      if ('function' === typeof formatter) {
        var val = args[index];
        match = formatter.call(self, val);

        // now we need to remove `args[index]` since it's inlined in the `format`
        args.splice(index, 1);
        index--;
      }
      return match;
    });

    // apply env-specific formatting (colors, etc.)
    exports.formatArgs.call(self, args);

    var logFn = debug.log || exports.log || console.log.bind(console);
    logFn.apply(self, args);
  }

  debug.namespace = namespace;
  debug.enabled = exports.enabled(namespace);
  debug.useColors = exports.useColors();
  debug.color = selectColor(namespace);
  debug.destroy = destroy;

  // env-specific initialization logic for debug instances
  if ('function' === typeof exports.init) {
    exports.init(debug);
  }

  exports.instances.push(debug);

  return debug;
}

function destroy () {
  var index = exports.instances.indexOf(this);
  if (index !== -1) {
    exports.instances.splice(index, 1);
    return true;
  } else {
    return false;
  }
}

/**
 * Enables a debug mode by namespaces. This can include modes
 * separated by a colon and wildcards.
 *
 * @param {String} namespaces
 * @api public
 */

function enable(namespaces) {
  exports.save(namespaces);

  exports.names = [];
  exports.skips = [];

  var i;
  var split = (typeof namespaces === 'string' ? namespaces : '').split(/[\s,]+/);
  var len = split.length;

  for (i = 0; i < len; i++) {
    if (!split[i]) continue; // ignore empty strings
    namespaces = split[i].replace(/\*/g, '.*?');
    if (namespaces[0] === '-') {
      exports.skips.push(new RegExp('^' + namespaces.substr(1) + '$'));
    } else {
      exports.names.push(new RegExp('^' + namespaces + '$'));
    }
  }

  for (i = 0; i < exports.instances.length; i++) {
    var instance = exports.instances[i];
    instance.enabled = exports.enabled(instance.namespace);
  }
}

/**
 * Disable debug output.
 *
 * @api public
 */

function disable() {
  exports.enable('');
}

/**
 * Returns true if the given mode name is enabled, false otherwise.
 *
 * @param {String} name
 * @return {Boolean}
 * @api public
 */

function enabled(name) {
  if (name[name.length - 1] === '*') {
    return true;
  }
  var i, len;
  for (i = 0, len = exports.skips.length; i < len; i++) {
    if (exports.skips[i].test(name)) {
      return false;
    }
  }
  for (i = 0, len = exports.names.length; i < len; i++) {
    if (exports.names[i].test(name)) {
      return true;
    }
  }
  return false;
}

/**
 * Coerce `val`.
 *
 * @param {Mixed} val
 * @return {Mixed}
 * @api private
 */

function coerce(val) {
  if (val instanceof Error) return val.stack || val.message;
  return val;
}
