const liborg = require('libnpmorg')
const { otplease } = require('../utils/auth.js')
const BaseCommand = require('../base-cmd.js')
const { output } = require('proc-log')

class Org extends BaseCommand {
  static description = 'Manage orgs'
  static name = 'org'
  static usage = [
    'set orgname username [developer | admin | owner]',
    'rm orgname username',
    'ls orgname [<username>]',
  ]

  static params = ['registry', 'otp', 'json', 'parseable']

  static async completion (opts) {
    const argv = opts.conf.argv.remain
    if (argv.length === 2) {
      return ['set', 'rm', 'ls']
    }

    switch (argv[2]) {
      case 'ls':
      case 'add':
      case 'rm':
      case 'set':
        return []
      default:
        throw new Error(argv[2] + ' not recognized')
    }
  }

  async exec ([cmd, orgname, username, role]) {
    return otplease(this.npm, {
      ...this.npm.flatOptions,
    }, opts => {
      switch (cmd) {
        case 'add':
        case 'set':
          return this.set(orgname, username, role, opts)
        case 'rm':
          return this.rm(orgname, username, opts)
        case 'ls':
          return this.ls(orgname, username, opts)
        default:
          throw this.usageError()
      }
    })
  }

  async set (org, user, role, opts) {
    role = role || 'developer'
    if (!org) {
      throw new Error('First argument `orgname` is required.')
    }

    if (!user) {
      throw new Error('Second argument `username` is required.')
    }

    if (!['owner', 'admin', 'developer'].find(x => x === role)) {
      throw new Error(
        /* eslint-disable-next-line max-len */
        'Third argument `role` must be one of `owner`, `admin`, or `developer`, with `developer` being the default value if omitted.'
      )
    }

    const memDeets = await liborg.set(org, user, role, opts)
    if (opts.json) {
      output.standard(JSON.stringify(memDeets, null, 2))
    } else if (opts.parseable) {
      output.standard(['org', 'orgsize', 'user', 'role'].join('\t'))
      output.standard(
        [memDeets.org.name, memDeets.org.size, memDeets.user, memDeets.role].join('\t')
      )
    } else if (!this.npm.silent) {
      output.standard(
        `Added ${memDeets.user} as ${memDeets.role} to ${memDeets.org.name}. You now have ${
            memDeets.org.size
          } member${memDeets.org.size === 1 ? '' : 's'} in this org.`
      )
    }

    return memDeets
  }

  async rm (org, user, opts) {
    if (!org) {
      throw new Error('First argument `orgname` is required.')
    }

    if (!user) {
      throw new Error('Second argument `username` is required.')
    }

    await liborg.rm(org, user, opts)
    const roster = await liborg.ls(org, opts)
    user = user.replace(/^[~@]?/, '')
    org = org.replace(/^[~@]?/, '')
    const userCount = Object.keys(roster).length
    if (opts.json) {
      output.buffer({
        user,
        org,
        userCount,
        deleted: true,
      })
    } else if (opts.parseable) {
      output.standard(['user', 'org', 'userCount', 'deleted'].join('\t'))
      output.standard([user, org, userCount, true].join('\t'))
    } else if (!this.npm.silent) {
      output.standard(
        `Successfully removed ${user} from ${org}. You now have ${userCount} member${
          userCount === 1 ? '' : 's'
        } in this org.`
      )
    }
  }

  async ls (org, user, opts) {
    if (!org) {
      throw new Error('First argument `orgname` is required.')
    }

    let roster = await liborg.ls(org, opts)
    if (user) {
      const newRoster = {}
      if (roster[user]) {
        newRoster[user] = roster[user]
      }

      roster = newRoster
    }
    if (opts.json) {
      output.buffer(roster)
    } else if (opts.parseable) {
      output.standard(['user', 'role'].join('\t'))
      Object.keys(roster).forEach(u => {
        output.standard([u, roster[u]].join('\t'))
      })
    } else if (!this.npm.silent) {
      const chalk = this.npm.chalk
      for (const u of Object.keys(roster).sort()) {
        output.standard(`${u} - ${chalk.cyan(roster[u])}`)
      }
    }
  }
}

module.exports = Org
