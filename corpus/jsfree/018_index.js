// pass in a manifest with a 'bin' field here, and it'll turn it
// into a properly santized bin object
const { join, basename } = require('path')

const normalize = pkg =>
  !pkg.bin ? removeBin(pkg)
  : typeof pkg.bin === 'string' ? normalizeString(pkg)
  : Array.isArray(pkg.bin) ? normalizeArray(pkg)
  : typeof pkg.bin === 'object' ? normalizeObject(pkg)
  : removeBin(pkg)

const normalizeString = pkg => {
  if (!pkg.name) {
    return removeBin(pkg)
  }
  pkg.bin = { [pkg.name]: pkg.bin }
  return normalizeObject(pkg)
}

const normalizeArray = pkg => {
  pkg.bin = pkg.bin.reduce((acc, k) => {
    acc[basename(k)] = k
    return acc
  }, {})
  return normalizeObject(pkg)
}

const removeBin = pkg => {
  delete pkg.bin
  return pkg
}

const normalizeObject = pkg => {
  const orig = pkg.bin
  const clean = {}
  let hasBins = false
  Object.keys(orig).forEach(binKey => {
    const base = join('/', basename(binKey.replace(/\\|:/g, '/'))).slice(1)

    if (typeof orig[binKey] !== 'string' || !base) {
      return
    }

    const binTarget = join('/', orig[binKey])
      .replace(/\\/g, '/').slice(1)

    if (!binTarget) {
      return
    }

    clean[base] = binTarget
    hasBins = true
  })

  if (hasBins) {
    pkg.bin = clean
  } else {
    delete pkg.bin
  }

  return pkg
}

module.exports = normalize
