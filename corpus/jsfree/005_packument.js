'use strict'

const BB = require('bluebird')

const fetch = require('npm-registry-fetch')
const LRU = require('lru-cache')
const optCheck = require('../../util/opt-check')

// Corgis are cute. 🐕🐶
const CORGI_DOC = 'application/vnd.npm.install-v1+json; q=1.0, application/json; q=0.8, */*'
const JSON_DOC = 'application/json'

module.exports = packument
function packument (spec, opts) {
  opts = optCheck(opts)

  const registry = fetch.pickRegistry(spec, opts)
  const uri = registry.replace(/\/?$/, '/') + spec.escapedName

  return fetchPackument(uri, registry, spec, opts)
}

const MEMO = new LRU({
  length: m => m._contentLength,
  max: 200 * 1024 * 1024, // 200MB
  maxAge: 30 * 1000 // 30s
})

module.exports.clearMemoized = clearMemoized
function clearMemoized () {
  MEMO.reset()
}

function fetchPackument (uri, registry, spec, opts) {
  const mem = pickMem(opts)
  const accept = opts.fullMetadata ? JSON_DOC : CORGI_DOC
  const memoKey = `${uri}~(${accept})`
  if (mem && !opts.preferOnline && mem.has(memoKey)) {
    return BB.resolve(mem.get(memoKey))
  }

  return fetch(uri, opts.concat({
    headers: {
      'pacote-req-type': 'packument',
      'pacote-pkg-id': `registry:${spec.name}`,
      accept
    },
    spec
  }, opts, {
    // Force integrity to null: we never check integrity hashes for manifests
    integrity: null
  })).then(res => res.json().then(packument => {
    packument._cached = res.headers.has('x-local-cache')
    packument._contentLength = +res.headers.get('content-length')
    // NOTE - we need to call pickMem again because proxy
    //        objects get reused!
    const mem = pickMem(opts)
    if (mem) {
      mem.set(memoKey, packument)
    }
    return packument
  })).catch(err => {
    if (err.code === 'E404' && !opts.fullMetadata) {
      return fetchPackument(uri, registry, spec, opts.concat({
        fullMetadata: true
      }))
    } else {
      throw err
    }
  })
}

class ObjProxy {
  get (key) { return this.obj[key] }
  set (key, val) { this.obj[key] = val }
}

// This object is used synchronously and immediately, so
// we can safely reuse it instead of consing up new ones
const PROX = new ObjProxy()
function pickMem (opts) {
  if (!opts || !opts.memoize) {
    return MEMO
  } else if (opts.memoize.get && opts.memoize.set) {
    return opts.memoize
  } else if (typeof opts.memoize === 'object') {
    PROX.obj = opts.memoize
    return PROX
  } else {
    return null
  }
}
