'use strict'

const reporters = {
  install: require('./reporters/install'),
  parseable: require('./reporters/parseable'),
  detail: require('./reporters/detail'),
  json: require('./reporters/json'),
  quiet: require('./reporters/quiet')
}

const report = function (data, options) {
  const defaults = {
    reporter: 'install',
    withColor: true,
    withUnicode: true
  }

  const config = Object.assign({}, defaults, options)
  return new Promise((resolve) => {
    const result = reporters[config.reporter](data, config)
    return resolve(result)
  })
}

module.exports = report
