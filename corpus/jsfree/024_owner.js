const { dirname, resolve } = require('path')
const url = require('url')

const fs = require('../fs.js')

// given a path, find the owner of the nearest parent
const find = async (path) => {
  // if we have no getuid, permissions are irrelevant on this platform
  if (!process.getuid) {
    return {}
  }

  // fs methods accept URL objects with a scheme of file: so we need to unwrap
  // those into an actual path string before we can resolve it
  const resolved = path != null && path.href && path.origin
    ? resolve(url.fileURLToPath(path))
    : resolve(path)

  let stat

  try {
    stat = await fs.lstat(resolved)
  } finally {
    // if we got a stat, return its contents
    if (stat) {
      return { uid: stat.uid, gid: stat.gid }
    }

    // try the parent directory
    if (resolved !== dirname(resolved)) {
      return find(dirname(resolved))
    }

    // no more parents, never got a stat, just return an empty object
    return {}
  }
}

// given a path, uid, and gid update the ownership of the path if necessary
const update = async (path, uid, gid) => {
  // nothing to update, just exit
  if (uid === undefined && gid === undefined) {
    return
  }

  try {
    // see if the permissions are already the same, if they are we don't
    // need to do anything, so return early
    const stat = await fs.stat(path)
    if (uid === stat.uid && gid === stat.gid) {
      return
    }
  } catch {
    // ignore errors
  }

  try {
    await fs.chown(path, uid, gid)
  } catch {
    // ignore errors
  }
}

// accepts a `path` and the `owner` property of an options object and normalizes
// it into an object with numerical `uid` and `gid`
const validate = async (path, input) => {
  let uid
  let gid

  if (typeof input === 'string' || typeof input === 'number') {
    uid = input
    gid = input
  } else if (input && typeof input === 'object') {
    uid = input.uid
    gid = input.gid
  }

  if (uid === 'inherit' || gid === 'inherit') {
    const owner = await find(path)
    if (uid === 'inherit') {
      uid = owner.uid
    }

    if (gid === 'inherit') {
      gid = owner.gid
    }
  }

  return { uid, gid }
}

module.exports = {
  find,
  update,
  validate,
}
