import * as util from "../core/util.js";
const error = () => {
    const Sizable = {
        string: { unit: "Zeichen", verb: "zu haben" },
        file: { unit: "Bytes", verb: "zu haben" },
        array: { unit: "Elemente", verb: "zu haben" },
        set: { unit: "Elemente", verb: "zu haben" },
    };
    function getSizing(origin) {
        return Sizable[origin] ?? null;
    }
    const parsedType = (data) => {
        const t = typeof data;
        switch (t) {
            case "number": {
                return Number.isNaN(data) ? "NaN" : "Zahl";
            }
            case "object": {
                if (Array.isArray(data)) {
                    return "Array";
                }
                if (data === null) {
                    return "null";
                }
                if (Object.getPrototypeOf(data) !== Object.prototype && data.constructor) {
                    return data.constructor.name;
                }
            }
        }
        return t;
    };
    const Nouns = {
        regex: "Eingabe",
        email: "E-Mail-Adresse",
        url: "URL",
        emoji: "Emoji",
        uuid: "UUID",
        uuidv4: "UUIDv4",
        uuidv6: "UUIDv6",
        nanoid: "nanoid",
        guid: "GUID",
        cuid: "cuid",
        cuid2: "cuid2",
        ulid: "ULID",
        xid: "XID",
        ksuid: "KSUID",
        datetime: "ISO-Datum und -Uhrzeit",
        date: "ISO-Datum",
        time: "ISO-Uhrzeit",
        duration: "ISO-Dauer",
        ipv4: "IPv4-Adresse",
        ipv6: "IPv6-Adresse",
        cidrv4: "IPv4-Bereich",
        cidrv6: "IPv6-Bereich",
        base64: "Base64-codierter String",
        base64url: "Base64-URL-codierter String",
        json_string: "JSON-String",
        e164: "E.164-Nummer",
        jwt: "JWT",
        template_literal: "Eingabe",
    };
    return (issue) => {
        switch (issue.code) {
            case "invalid_type":
                return `Ungültige Eingabe: erwartet ${issue.expected}, erhalten ${parsedType(issue.input)}`;
            case "invalid_value":
                if (issue.values.length === 1)
                    return `Ungültige Eingabe: erwartet ${util.stringifyPrimitive(issue.values[0])}`;
                return `Ungültige Option: erwartet eine von ${util.joinValues(issue.values, "|")}`;
            case "too_big": {
                const adj = issue.inclusive ? "<=" : "<";
                const sizing = getSizing(issue.origin);
                if (sizing)
                    return `Zu groß: erwartet, dass ${issue.origin ?? "Wert"} ${adj}${issue.maximum.toString()} ${sizing.unit ?? "Elemente"} hat`;
                return `Zu groß: erwartet, dass ${issue.origin ?? "Wert"} ${adj}${issue.maximum.toString()} ist`;
            }
            case "too_small": {
                const adj = issue.inclusive ? ">=" : ">";
                const sizing = getSizing(issue.origin);
                if (sizing) {
                    return `Zu klein: erwartet, dass ${issue.origin} ${adj}${issue.minimum.toString()} ${sizing.unit} hat`;
                }
                return `Zu klein: erwartet, dass ${issue.origin} ${adj}${issue.minimum.toString()} ist`;
            }
            case "invalid_format": {
                const _issue = issue;
                if (_issue.format === "starts_with")
                    return `Ungültiger String: muss mit "${_issue.prefix}" beginnen`;
                if (_issue.format === "ends_with")
                    return `Ungültiger String: muss mit "${_issue.suffix}" enden`;
                if (_issue.format === "includes")
                    return `Ungültiger String: muss "${_issue.includes}" enthalten`;
                if (_issue.format === "regex")
                    return `Ungültiger String: muss dem Muster ${_issue.pattern} entsprechen`;
                return `Ungültig: ${Nouns[_issue.format] ?? issue.format}`;
            }
            case "not_multiple_of":
                return `Ungültige Zahl: muss ein Vielfaches von ${issue.divisor} sein`;
            case "unrecognized_keys":
                return `${issue.keys.length > 1 ? "Unbekannte Schlüssel" : "Unbekannter Schlüssel"}: ${util.joinValues(issue.keys, ", ")}`;
            case "invalid_key":
                return `Ungültiger Schlüssel in ${issue.origin}`;
            case "invalid_union":
                return "Ungültige Eingabe";
            case "invalid_element":
                return `Ungültiger Wert in ${issue.origin}`;
            default:
                return `Ungültige Eingabe`;
        }
    };
};
export default function () {
    return {
        localeError: error(),
    };
}
