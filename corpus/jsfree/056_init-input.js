var fs = require('fs')
var path = require('path');

module.exports = {
  "name" : prompt('name',
    typeof name === 'undefined'
    ? basename.replace(/^node-|[.-]js$/g, ''): name),
  "version" : prompt('version', typeof version !== "undefined"
                              ? version : '0.0.0'),
  "description" : (function () {
      if (typeof description !== 'undefined' && description) {
        return description
      }
      var value;
      try {
          var src = fs.readFileSync('README.md', 'utf8');
          value = src.split('\n').filter(function (line) {
              return /\s+/.test(line)
                  && line.trim() !== basename.replace(/^node-/, '')
                  && !line.trim().match(/^#/)
              ;
          })[0]
              .trim()
              .replace(/^./, function (c) { return c.toLowerCase() })
              .replace(/\.$/, '')
          ;
      }
      catch (e) {
        try {
          // Wouldn't it be nice if that file mattered?
          var d = fs.readFileSync('.git/description', 'utf8')
        } catch (e) {}
        if (d.trim() && !value) value = d
      }
      return prompt('description', value);
  })(),
  "main" : (function () {
    var f
    try {
      f = fs.readdirSync(dirname).filter(function (f) {
        return f.match(/\.js$/)
      })
      if (f.indexOf('index.js') !== -1)
        f = 'index.js'
      else if (f.indexOf('main.js') !== -1)
        f = 'main.js'
      else if (f.indexOf(basename + '.js') !== -1)
        f = basename + '.js'
      else
        f = f[0]
    } catch (e) {}

    return prompt('entry point', f || 'index.js')
  })(),
  "bin" : function (cb) {
    fs.readdir(dirname + '/bin', function (er, d) {
      // no bins
      if (er) return cb()
      // just take the first js file we find there, or nada
      return cb(null, d.filter(function (f) {
        return f.match(/\.js$/)
      })[0])
    })
  },
  "directories" : function (cb) {
    fs.readdir('.', function (er, dirs) {
      if (er) return cb(er)
      var res = {}
      dirs.forEach(function (d) {
        switch (d) {
          case 'example': case 'examples': return res.example = d
          case 'test': case 'tests': return res.test = d
          case 'doc': case 'docs': return res.doc = d
          case 'man': return res.man = d
        }
      })
      if (Object.keys(res).length === 0) res = undefined
      return cb(null, res)
    })
  },
  "dependencies" : typeof dependencies !== 'undefined' ? dependencies
    : function (cb) {
      fs.readdir('node_modules', function (er, dir) {
        if (er) return cb()
        var deps = {}
        var n = dir.length
        dir.forEach(function (d) {
          if (d.match(/^\./)) return next()
          if (d.match(/^(expresso|mocha|tap|coffee-script|coco|streamline)$/))
            return next()
          fs.readFile('node_modules/' + d + '/package.json', function (er, p) {
            if (er) return next()
            try { p = JSON.parse(p) } catch (e) { return next() }
            if (!p.version) return next()
            deps[d] = '~' + p.version
            return next()
          })
        })
        function next () {
          if (--n === 0) return cb(null, deps)
        }
      })
    },
  "devDependencies" : typeof devDependencies !== 'undefined' ? devDependencies
    : function (cb) {
      // same as dependencies but for dev deps
      fs.readdir('node_modules', function (er, dir) {
        if (er) return cb()
        var deps = {}
        var n = dir.length
        dir.forEach(function (d) {
          if (d.match(/^\./)) return next()
          if (!d.match(/^(expresso|mocha|tap|coffee-script|coco|streamline)$/))
            return next()
          fs.readFile('node_modules/' + d + '/package.json', function (er, p) {
            if (er) return next()
            try { p = JSON.parse(p) } catch (e) { return next() }
            if (!p.version) return next()
            deps[d] = '~' + p.version
            return next()
          })
        })
        function next () {
          if (--n === 0) return cb(null, deps)
        }
      })
    },
  "scripts" : (function () {
    // check to see what framework is in use, if any
    try { var d = fs.readdirSync('node_modules') }
    catch (e) { d = [] }
    var s = typeof scripts === 'undefined' ? {} : scripts

    if (d.indexOf('coffee-script') !== -1)
      s.prepublish = prompt('build command',
                            s.prepublish || 'coffee src/*.coffee -o lib')

    var notest = 'echo "Error: no test specified" && exit 1'
    function tx (test) {
      return test || notest
    }

    if (!s.test || s.test === notest) {
      if (d.indexOf('tap') !== -1)
        s.test = prompt('test command', 'tap test/*.js', tx)
      else if (d.indexOf('expresso') !== -1)
        s.test = prompt('test command', 'expresso test', tx)
      else if (d.indexOf('mocha') !== -1)
        s.test = prompt('test command', 'mocha', tx)
      else
        s.test = prompt('test command', tx)
    }

    return s

  })(),

  "repository" : (function () {
    try { var gconf = fs.readFileSync('.git/config') }
    catch (e) { gconf = null }
    if (gconf) {
      gconf = gconf.split(/\r?\n/)
      var i = gconf.indexOf('[remote "origin"]')
      if (i !== -1) {
        var u = gconf[i + 1]
        if (!u.match(/^\s*url =/)) u = gconf[i + 2]
        if (!u.match(/^\s*url =/)) u = null
        else u = u.replace(/^\s*url = /, '')
      }
      if (u && u.match(/^git@github.com:/))
        u = u.replace(/^git@github.com:/, 'git://github.com/')
    }

    return prompt('git repository', u)
  })(),

  "keywords" : prompt(function (s) {
    if (!s) return undefined
    if (Array.isArray(s)) s = s.join(' ')
    if (typeof s !== 'string') return s
    return s.split(/[\s,]+/)
  }),
  "author" : config['init.author.name']
    ? {
        "name" : config['init.author.name'],
        "email" : config['init.author.email'],
        "url" : config['init.author.url']
      }
    : undefined,
  "license" : prompt('license', 'BSD')
}
