'use strict';
module.exports = function generate_not(it, $keyword, $ruleType) {
  var out = ' ';
  var $lvl = it.level;
  var $dataLvl = it.dataLevel;
  var $schema = it.schema[$keyword];
  var $schemaPath = it.schemaPath + it.util.getProperty($keyword);
  var $errSchemaPath = it.errSchemaPath + '/' + $keyword;
  var $breakOnError = !it.opts.allErrors;
  var $data = 'data' + ($dataLvl || '');
  var $errs = 'errs__' + $lvl;
  var $it = it.util.copy(it);
  $it.level++;
  var $nextValid = 'valid' + $it.level;
  if ((it.opts.strictKeywords ? (typeof $schema == 'object' && Object.keys($schema).length > 0) || $schema === false : it.util.schemaHasRules($schema, it.RULES.all))) {
    $it.schema = $schema;
    $it.schemaPath = $schemaPath;
    $it.errSchemaPath = $errSchemaPath;
    out += ' var ' + ($errs) + ' = errors;  ';
    var $wasComposite = it.compositeRule;
    it.compositeRule = $it.compositeRule = true;
    $it.createErrors = false;
    var $allErrorsOption;
    if ($it.opts.allErrors) {
      $allErrorsOption = $it.opts.allErrors;
      $it.opts.allErrors = false;
    }
    out += ' ' + (it.validate($it)) + ' ';
    $it.createErrors = true;
    if ($allErrorsOption) $it.opts.allErrors = $allErrorsOption;
    it.compositeRule = $it.compositeRule = $wasComposite;
    out += ' if (' + ($nextValid) + ') {   ';
    var $$outStack = $$outStack || [];
    $$outStack.push(out);
    out = ''; /* istanbul ignore else */
    if (it.createErrors !== false) {
      out += ' { keyword: \'' + ('not') + '\' , dataPath: (dataPath || \'\') + ' + (it.errorPath) + ' , schemaPath: ' + (it.util.toQuotedString($errSchemaPath)) + ' , params: {} ';
      if (it.opts.messages !== false) {
        out += ' , message: \'should NOT be valid\' ';
      }
      if (it.opts.verbose) {
        out += ' , schema: validate.schema' + ($schemaPath) + ' , parentSchema: validate.schema' + (it.schemaPath) + ' , data: ' + ($data) + ' ';
      }
      out += ' } ';
    } else {
      out += ' {} ';
    }
    var __err = out;
    out = $$outStack.pop();
    if (!it.compositeRule && $breakOnError) {
      /* istanbul ignore if */
      if (it.async) {
        out += ' throw new ValidationError([' + (__err) + ']); ';
      } else {
        out += ' validate.errors = [' + (__err) + ']; return false; ';
      }
    } else {
      out += ' var err = ' + (__err) + ';  if (vErrors === null) vErrors = [err]; else vErrors.push(err); errors++; ';
    }
    out += ' } else {  errors = ' + ($errs) + '; if (vErrors !== null) { if (' + ($errs) + ') vErrors.length = ' + ($errs) + '; else vErrors = null; } ';
    if (it.opts.allErrors) {
      out += ' } ';
    }
  } else {
    out += '  var err =   '; /* istanbul ignore else */
    if (it.createErrors !== false) {
      out += ' { keyword: \'' + ('not') + '\' , dataPath: (dataPath || \'\') + ' + (it.errorPath) + ' , schemaPath: ' + (it.util.toQuotedString($errSchemaPath)) + ' , params: {} ';
      if (it.opts.messages !== false) {
        out += ' , message: \'should NOT be valid\' ';
      }
      if (it.opts.verbose) {
        out += ' , schema: validate.schema' + ($schemaPath) + ' , parentSchema: validate.schema' + (it.schemaPath) + ' , data: ' + ($data) + ' ';
      }
      out += ' } ';
    } else {
      out += ' {} ';
    }
    out += ';  if (vErrors === null) vErrors = [err]; else vErrors.push(err); errors++; ';
    if ($breakOnError) {
      out += ' if (false) { ';
    }
  }
  return out;
}
