"use strict";
Object.defineProperty(exports, "__esModule", { value: true });
const util_1 = require("./util");
/**
 * Resolves the given DNS hostname into an IP address, and returns it in the dot
 * separated format as a string.
 *
 * Example:
 *
 * ``` js
 * dnsResolve("home.netscape.com")
 *   // returns the string "198.95.249.79".
 * ```
 *
 * @param {String} host hostname to resolve
 * @return {String} resolved IP address
 */
async function dnsResolve(host) {
    const family = 4;
    try {
        const r = await (0, util_1.dnsLookup)(host, { family });
        if (typeof r === 'string') {
            return r;
        }
    }
    catch (err) {
        // @ignore
    }
    return null;
}
exports.default = dnsResolve;
//# sourceMappingURL=dnsResolve.js.map