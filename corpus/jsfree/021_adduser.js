const { log, output } = require('proc-log')
const { redactLog: replaceInfo } = require('@npmcli/redact')
const auth = require('../utils/auth.js')
const BaseCommand = require('../base-cmd.js')

class AddUser extends BaseCommand {
  static description = 'Add a registry user account'
  static name = 'adduser'
  static params = [
    'registry',
    'scope',
    'auth-type',
  ]

  async exec () {
    const scope = this.npm.config.get('scope')
    let registry = this.npm.config.get('registry')

    if (scope) {
      const scopedRegistry = this.npm.config.get(`${scope}:registry`)
      const cliRegistry = this.npm.config.get('registry', 'cli')
      if (scopedRegistry && !cliRegistry) {
        registry = scopedRegistry
      }
    }

    const creds = this.npm.config.getCredentialsByURI(registry)

    log.notice('', `Log in on ${replaceInfo(registry)}`)

    const { message, newCreds } = await auth.adduser(this.npm, {
      ...this.npm.flatOptions,
      creds,
      registry,
    })

    this.npm.config.delete('_token', 'user') // prevent legacy pollution
    this.npm.config.setCredentialsByURI(registry, newCreds)

    if (scope) {
      this.npm.config.set(scope + ':registry', registry, 'user')
    }

    await this.npm.config.save('user')

    output.standard(message)
  }
}

module.exports = AddUser
