/**
 * @license
 * Copyright 2023 Google Inc.
 * SPDX-License-Identifier: Apache-2.0
 */
/**
 * @public
 */
export var TargetType;
(function (TargetType) {
    TargetType["PAGE"] = "page";
    TargetType["BACKGROUND_PAGE"] = "background_page";
    TargetType["SERVICE_WORKER"] = "service_worker";
    TargetType["SHARED_WORKER"] = "shared_worker";
    TargetType["BROWSER"] = "browser";
    TargetType["WEBVIEW"] = "webview";
    TargetType["OTHER"] = "other";
    /**
     * @internal
     */
    TargetType["TAB"] = "tab";
})(TargetType || (TargetType = {}));
/**
 * Target represents a
 * {@link https://chromedevtools.github.io/devtools-protocol/tot/Target/ | CDP target}.
 * In CDP a target is something that can be debugged such a frame, a page or a
 * worker.
 * @public
 */
export class Target {
    /**
     * @internal
     */
    constructor() { }
    /**
     * If the target is not of type `"service_worker"` or `"shared_worker"`, returns `null`.
     */
    async worker() {
        return null;
    }
    /**
     * If the target is not of type `"page"`, `"webview"` or `"background_page"`,
     * returns `null`.
     */
    async page() {
        return null;
    }
}
//# sourceMappingURL=Target.js.map