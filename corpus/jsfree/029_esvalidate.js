#!/usr/bin/env node
/*
  Copyright JS Foundation and other contributors, https://js.foundation/

  Redistribution and use in source and binary forms, with or without
  modification, are permitted provided that the following conditions are met:

    * Redistributions of source code must retain the above copyright
      notice, this list of conditions and the following disclaimer.
    * Redistributions in binary form must reproduce the above copyright
      notice, this list of conditions and the following disclaimer in the
      documentation and/or other materials provided with the distribution.

  THIS SOFTWARE IS PROVIDED BY THE COPYRIGHT HOLDERS AND CONTRIBUTORS "AS IS"
  AND ANY EXPRESS OR IMPLIED WARRANTIES, INCLUDING, BUT NOT LIMITED TO, THE
  IMPLIED WARRANTIES OF MERCHANTABILITY AND FITNESS FOR A PARTICULAR PURPOSE
  ARE DISCLAIMED. IN NO EVENT SHALL <COPYRIGHT HOLDER> BE LIABLE FOR ANY
  DIRECT, INDIRECT, INCIDENTAL, SPECIAL, EXEMPLARY, OR CONSEQUENTIAL DAMAGES
  (INCLUDING, BUT NOT LIMITED TO, PROCUREMENT OF SUBSTITUTE GOODS OR SERVICES;
  LOSS OF USE, DATA, OR PROFITS; OR BUSINESS INTERRUPTION) HOWEVER CAUSED AND
  ON ANY THEORY OF LIABILITY, WHETHER IN CONTRACT, STRICT LIABILITY, OR TORT
  (INCLUDING NEGLIGENCE OR OTHERWISE) ARISING IN ANY WAY OUT OF THE USE OF
  THIS SOFTWARE, EVEN IF ADVISED OF THE POSSIBILITY OF SUCH DAMAGE.
*/

/*jslint sloppy:true plusplus:true node:true rhino:true */
/*global phantom:true */

var fs, system, esprima, options, fnames, forceFile, count;

if (typeof esprima === 'undefined') {
    // PhantomJS can only require() relative files
    if (typeof phantom === 'object') {
        fs = require('fs');
        system = require('system');
        esprima = require('./esprima');
    } else if (typeof require === 'function') {
        fs = require('fs');
        try {
            esprima = require('esprima');
        } catch (e) {
            esprima = require('../');
        }
    } else if (typeof load === 'function') {
        try {
            load('esprima.js');
        } catch (e) {
            load('../esprima.js');
        }
    }
}

// Shims to Node.js objects when running under PhantomJS 1.7+.
if (typeof phantom === 'object') {
    fs.readFileSync = fs.read;
    process = {
        argv: [].slice.call(system.args),
        exit: phantom.exit,
        on: function (evt, callback) {
            callback();
        }
    };
    process.argv.unshift('phantomjs');
}

// Shims to Node.js objects when running under Rhino.
if (typeof console === 'undefined' && typeof process === 'undefined') {
    console = { log: print };
    fs = { readFileSync: readFile };
    process = {
        argv: arguments,
        exit: quit,
        on: function (evt, callback) {
            callback();
        }
    };
    process.argv.unshift('esvalidate.js');
    process.argv.unshift('rhino');
}

function showUsage() {
    console.log('Usage:');
    console.log('   esvalidate [options] [file.js...]');
    console.log();
    console.log('Available options:');
    console.log();
    console.log('  --format=type  Set the report format, plain (default) or junit');
    console.log('  -v, --version  Print program version');
    console.log();
    process.exit(1);
}

options = {
    format: 'plain'
};

fnames = [];

process.argv.splice(2).forEach(function (entry) {

    if (forceFile || entry === '-' || entry.slice(0, 1) !== '-') {
        fnames.push(entry);
    } else if (entry === '-h' || entry === '--help') {
        showUsage();
    } else if (entry === '-v' || entry === '--version') {
        console.log('ECMAScript Validator (using Esprima version', esprima.version, ')');
        console.log();
        process.exit(0);
    } else if (entry.slice(0, 9) === '--format=') {
        options.format = entry.slice(9);
        if (options.format !== 'plain' && options.format !== 'junit') {
            console.log('Error: unknown report format ' + options.format + '.');
            process.exit(1);
        }
    } else if (entry === '--') {
        forceFile = true;
    } else {
        console.log('Error: unknown option ' + entry + '.');
        process.exit(1);
    }
});

if (fnames.length === 0) {
    fnames.push('');
}

if (options.format === 'junit') {
    console.log('<?xml version="1.0" encoding="UTF-8"?>');
    console.log('<testsuites>');
}

count = 0;

function run(fname, content) {
    var timestamp, syntax, name;
    try {
        if (typeof content !== 'string') {
            throw content;
        }

        if (content[0] === '#' && content[1] === '!') {
            content = '//' + content.substr(2, content.length);
        }

        timestamp = Date.now();
        syntax = esprima.parse(content, { tolerant: true });

        if (options.format === 'junit') {

            name = fname;
            if (name.lastIndexOf('/') >= 0) {
                name = name.slice(name.lastIndexOf('/') + 1);
            }

            console.log('<testsuite name="' + fname + '" errors="0" ' +
                ' failures="' + syntax.errors.length + '" ' +
                ' tests="' + syntax.errors.length + '" ' +
                ' time="' + Math.round((Date.now() - timestamp) / 1000) +
                '">');

            syntax.errors.forEach(function (error) {
                var msg = error.message;
                msg = msg.replace(/^Line\ [0-9]*\:\ /, '');
                console.log('  <testcase name="Line ' + error.lineNumber + ': ' + msg + '" ' +
                    ' time="0">');
                console.log('    <error type="SyntaxError" message="' + error.message + '">' +
                    error.message + '(' + name + ':' + error.lineNumber + ')' +
                    '</error>');
                console.log('  </testcase>');
            });

            console.log('</testsuite>');

        } else if (options.format === 'plain') {

            syntax.errors.forEach(function (error) {
                var msg = error.message;
                msg = msg.replace(/^Line\ [0-9]*\:\ /, '');
                msg = fname + ':' + error.lineNumber + ': ' + msg;
                console.log(msg);
                ++count;
            });

        }
    } catch (e) {
        ++count;
        if (options.format === 'junit') {
            console.log('<testsuite name="' + fname + '" errors="1" failures="0" tests="1" ' +
                ' time="' + Math.round((Date.now() - timestamp) / 1000) + '">');
            console.log(' <testcase name="' + e.message + '" ' + ' time="0">');
            console.log(' <error type="ParseError" message="' + e.message + '">' +
                e.message + '(' + fname + ((e.lineNumber) ? ':' + e.lineNumber : '') +
                ')</error>');
            console.log(' </testcase>');
            console.log('</testsuite>');
        } else {
            console.log(fname + ':' + e.lineNumber + ': ' + e.message.replace(/^Line\ [0-9]*\:\ /, ''));
        }
    }
}

fnames.forEach(function (fname) {
    var content = '';
    try {
        if (fname && (fname !== '-' || forceFile)) {
            content = fs.readFileSync(fname, 'utf-8');
        } else {
            fname = '';
            process.stdin.resume();
            process.stdin.on('data', function(chunk) {
                content += chunk;
            });
            process.stdin.on('end', function() {
                run(fname, content);
            });
            return;
        }
    } catch (e) {
        content = e;
    }
    run(fname, content);
});

process.on('exit', function () {
    if (options.format === 'junit') {
        console.log('</testsuites>');
    }

    if (count > 0) {
        process.exit(1);
    }

    if (count === 0 && typeof phantom === 'object') {
        process.exit(0);
    }
});
