"use strict";
/**
 * @license
 * Copyright 2025 Google Inc.
 * SPDX-License-Identifier: Apache-2.0
 */
Object.defineProperty(exports, "__esModule", { value: true });
exports.BidiDeviceRequestPrompt = exports.BidiDeviceRequestPromptManager = void 0;
const DeviceRequestPrompt_js_1 = require("../api/DeviceRequestPrompt.js");
const Errors_js_1 = require("../common/Errors.js");
const Deferred_js_1 = require("../util/Deferred.js");
/**
 * @internal
 */
class BidiDeviceRequestPromptManager {
    #session;
    #contextId;
    #enabled = false;
    constructor(contextId, session) {
        this.#session = session;
        this.#contextId = contextId;
    }
    async #enableIfNeeded() {
        if (!this.#enabled) {
            this.#enabled = true;
            await this.#session.subscribe(['bluetooth.requestDevicePromptUpdated'], [this.#contextId]);
        }
    }
    async waitForDevicePrompt(timeout, signal) {
        const deferred = Deferred_js_1.Deferred.create({
            message: `Waiting for \`DeviceRequestPrompt\` failed: ${timeout}ms exceeded`,
            timeout,
        });
        const onRequestDevicePromptUpdated = (params) => {
            if (params.context === this.#contextId) {
                deferred.resolve(new BidiDeviceRequestPrompt(this.#contextId, params.prompt, this.#session, params.devices));
                this.#session.off('bluetooth.requestDevicePromptUpdated', onRequestDevicePromptUpdated);
            }
        };
        this.#session.on('bluetooth.requestDevicePromptUpdated', onRequestDevicePromptUpdated);
        if (signal) {
            signal.addEventListener('abort', () => {
                deferred.reject(signal.reason);
            }, { once: true });
        }
        await this.#enableIfNeeded();
        return await deferred.valueOrThrow();
    }
}
exports.BidiDeviceRequestPromptManager = BidiDeviceRequestPromptManager;
/**
 * @internal
 */
class BidiDeviceRequestPrompt extends DeviceRequestPrompt_js_1.DeviceRequestPrompt {
    #session;
    #promptId;
    #contextId;
    constructor(contextId, promptId, session, devices) {
        super();
        this.#session = session;
        this.#promptId = promptId;
        this.#contextId = contextId;
        this.devices.push(...devices.map(d => {
            return {
                id: d.id,
                name: d.name ?? 'UNKNOWN',
            };
        }));
    }
    async cancel() {
        await this.#session.send('bluetooth.handleRequestDevicePrompt', {
            context: this.#contextId,
            prompt: this.#promptId,
            accept: false,
        });
    }
    async select(device) {
        await this.#session.send('bluetooth.handleRequestDevicePrompt', {
            context: this.#contextId,
            prompt: this.#promptId,
            accept: true,
            device: device.id,
        });
    }
    waitForDevice() {
        throw new Errors_js_1.UnsupportedOperation();
    }
}
exports.BidiDeviceRequestPrompt = BidiDeviceRequestPrompt;
//# sourceMappingURL=DeviceRequestPrompt.js.map