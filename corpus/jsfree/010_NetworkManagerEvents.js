/**
 * @license
 * Copyright 2022 Google Inc.
 * SPDX-License-Identifier: Apache-2.0
 */
/**
 * We use symbols to prevent any external parties listening to these events.
 * They are internal to Puppeteer.
 *
 * @internal
 */
// eslint-disable-next-line @typescript-eslint/no-namespace
export var NetworkManagerEvent;
(function (NetworkManagerEvent) {
    NetworkManagerEvent.Request = Symbol('NetworkManager.Request');
    NetworkManagerEvent.RequestServedFromCache = Symbol('NetworkManager.RequestServedFromCache');
    NetworkManagerEvent.Response = Symbol('NetworkManager.Response');
    NetworkManagerEvent.RequestFailed = Symbol('NetworkManager.RequestFailed');
    NetworkManagerEvent.RequestFinished = Symbol('NetworkManager.RequestFinished');
})(NetworkManagerEvent || (NetworkManagerEvent = {}));
//# sourceMappingURL=NetworkManagerEvents.js.map