const { webAuthOpener, adduserWeb, loginWeb, loginCouch, adduserCouch } = require('npm-profile')
const { log } = require('proc-log')
const { createOpener } = require('../utils/open-url.js')
const read = require('../utils/read-user-info.js')

const otplease = async (npm, opts, fn) => {
  try {
    return await fn(opts)
  } catch (err) {
    if (!process.stdin.isTTY || !process.stdout.isTTY) {
      throw err
    }

    // web otp
    if (err.code === 'EOTP' && err.body?.authUrl && err.body?.doneUrl) {
      const { token: otp } = await webAuthOpener(
        createOpener(npm, 'Authenticate your account at'),
        err.body.authUrl,
        err.body.doneUrl,
        opts
      )
      return await fn({ ...opts, otp })
    }

    // classic otp
    if (err.code === 'EOTP' || (err.code === 'E401' && /one-time pass/.test(err.body))) {
      const otp = await read.otp('This operation requires a one-time password.\nEnter OTP:')
      return await fn({ ...opts, otp })
    }

    throw err
  }
}

const adduser = async (npm, { creds, ...opts }) => {
  const authType = npm.config.get('auth-type')
  let res
  if (authType === 'web') {
    try {
      res = await adduserWeb(createOpener(npm, 'Create your account at'), opts)
    } catch (err) {
      if (err.code === 'ENYI') {
        log.verbose('web add user not supported, trying couch')
      } else {
        throw err
      }
    }
  }

  // auth type !== web or ENYI error w/ web adduser
  if (!res) {
    const username = await read.username('Username:', creds.username)
    const password = await read.password('Password:', creds.password)
    const email = await read.email('Email: (this IS public) ', creds.email)
    // npm registry quirk: If you "add" an existing user with their current
    // password, it's effectively a login, and if that account has otp you'll
    // be prompted for it.
    res = await otplease(npm, opts, (reqOpts) => adduserCouch(username, email, password, reqOpts))
  }

  // We don't know the username if it was a web login, all we can reliably log is scope and registry
  const message = `Logged in${opts.scope ? ` to scope ${opts.scope}` : ''} on ${opts.registry}.`

  log.info('adduser', message)

  return {
    message,
    newCreds: { token: res.token },
  }
}

const login = async (npm, { creds, ...opts }) => {
  const authType = npm.config.get('auth-type')
  let res
  if (authType === 'web') {
    try {
      res = await loginWeb(createOpener(npm, 'Login at'), opts)
    } catch (err) {
      if (err.code === 'ENYI') {
        log.verbose('web login not supported, trying couch')
      } else {
        throw err
      }
    }
  }

  // auth type !== web or ENYI error w/ web login
  if (!res) {
    const username = await read.username('Username:', creds.username)
    const password = await read.password('Password:', creds.password)
    res = await otplease(npm, opts, (reqOpts) => loginCouch(username, password, reqOpts))
  }

  // We don't know the username if it was a web login, all we can reliably log is scope and registry
  const message = `Logged in${opts.scope ? ` to scope ${opts.scope}` : ''} on ${opts.registry}.`

  log.info('login', message)

  return {
    message,
    newCreds: { token: res.token },
  }
}

module.exports = {
  adduser,
  login,
  otplease,
}
