'use strict';
const stripAnsi = require('strip-ansi');
const isFullwidthCodePoint = require('is-fullwidth-code-point');
const emojiRegex = require('emoji-regex')();

module.exports = input => {
	input = input.replace(emojiRegex, '  ');

	if (typeof input !== 'string' || input.length === 0) {
		return 0;
	}

	input = stripAnsi(input);

	let width = 0;

	for (let i = 0; i < input.length; i++) {
		const code = input.codePointAt(i);

		// Ignore control characters
		if (code <= 0x1F || (code >= 0x7F && code <= 0x9F)) {
			continue;
		}

		// Ignore combining characters
		if (code >= 0x300 && code <= 0x36F) {
			continue;
		}

		// Surrogates
		if (code > 0xFFFF) {
			i++;
		}

		width += isFullwidthCodePoint(code) ? 2 : 1;
	}

	return width;
};
