'use strict'

const path = require('path')
const yargs = require('yargs')
const y18n = require('y18n')({
  directory: path.join(__dirname, 'locales'),
  locale: yargs.locale(),
  updateFiles: process.env.NPX_UPDATE_LOCALE_FILES === 'true'
})

module.exports = yTag
function yTag (parts) {
  let str = ''
  parts.forEach((part, i) => {
    str += part
    if (arguments.length > i + 1) {
      str += '%s'
    }
  })
  return y18n.__.apply(null, [str].concat([].slice.call(arguments, 1)))
}
