"use strict";
Object.defineProperty(exports, "__esModule", { value: true });
exports.encodeOIDString = encodeOIDString;
const ANS1_TAG_OID = 0x06;
function encodeOIDString(oid) {
    const parts = oid.split('.');
    // The first two subidentifiers are encoded into the first byte
    const first = parseInt(parts[0], 10) * 40 + parseInt(parts[1], 10);
    const rest = [];
    parts.slice(2).forEach((part) => {
        const bytes = encodeVariableLengthInteger(parseInt(part, 10));
        rest.push(...bytes);
    });
    const der = Buffer.from([first, ...rest]);
    return Buffer.from([ANS1_TAG_OID, der.length, ...der]);
}
function encodeVariableLengthInteger(value) {
    const bytes = [];
    let mask = 0x00;
    while (value > 0) {
        bytes.unshift((value & 0x7f) | mask);
        value >>= 7;
        mask = 0x80;
    }
    return bytes;
}
