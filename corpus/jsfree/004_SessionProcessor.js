/**
 * Copyright 2023 Google LLC.
 * Copyright (c) Microsoft Corporation.
 *
 * Licensed under the Apache License, Version 2.0 (the "License");
 * you may not use this file except in compliance with the License.
 * You may obtain a copy of the License at
 *
 *     http://www.apache.org/licenses/LICENSE-2.0
 *
 * Unless required by applicable law or agreed to in writing, software
 * distributed under the License is distributed on an "AS IS" BASIS,
 * WITHOUT WARRANTIES OR CONDITIONS OF ANY KIND, either express or implied.
 * See the License for the specific language governing permissions and
 * limitations under the License.
 */
import { InvalidArgumentException, } from '../../../protocol/protocol.js';
export class SessionProcessor {
    #eventManager;
    #browserCdpClient;
    #initConnection;
    #created = false;
    constructor(eventManager, browserCdpClient, initConnection) {
        this.#eventManager = eventManager;
        this.#browserCdpClient = browserCdpClient;
        this.#initConnection = initConnection;
    }
    status() {
        return { ready: false, message: 'already connected' };
    }
    #mergeCapabilities(capabilitiesRequest) {
        // Roughly following https://www.w3.org/TR/webdriver2/#dfn-capabilities-processing.
        // Validations should already be done by the parser.
        const mergedCapabilities = [];
        for (const first of capabilitiesRequest.firstMatch ?? [{}]) {
            const result = {
                ...capabilitiesRequest.alwaysMatch,
            };
            for (const key of Object.keys(first)) {
                if (result[key] !== undefined) {
                    throw new InvalidArgumentException(`Capability ${key} in firstMatch is already defined in alwaysMatch`);
                }
                result[key] = first[key];
            }
            mergedCapabilities.push(result);
        }
        const match = mergedCapabilities.find((c) => c.browserName === 'chrome') ??
            mergedCapabilities[0] ??
            {};
        match.unhandledPromptBehavior = this.#getUnhandledPromptBehavior(match.unhandledPromptBehavior);
        return match;
    }
    #getUnhandledPromptBehavior(capabilityValue) {
        if (capabilityValue === undefined) {
            return undefined;
        }
        if (typeof capabilityValue === 'object') {
            // Do not validate capabilities. Incorrect ones will be ignored by Mapper.
            return capabilityValue;
        }
        if (typeof capabilityValue !== 'string') {
            throw new InvalidArgumentException(`Unexpected 'unhandledPromptBehavior' type: ${typeof capabilityValue}`);
        }
        switch (capabilityValue) {
            // `beforeUnload: accept` has higher priority over string capability, as the latest
            // one is set to "fallbackDefault".
            // https://w3c.github.io/webdriver/#dfn-deserialize-as-an-unhandled-prompt-behavior
            // https://w3c.github.io/webdriver/#dfn-get-the-prompt-handler
            case 'accept':
            case 'accept and notify':
                return {
                    default: "accept" /* Session.UserPromptHandlerType.Accept */,
                    beforeUnload: "accept" /* Session.UserPromptHandlerType.Accept */,
                };
            case 'dismiss':
            case 'dismiss and notify':
                return {
                    default: "dismiss" /* Session.UserPromptHandlerType.Dismiss */,
                    beforeUnload: "accept" /* Session.UserPromptHandlerType.Accept */,
                };
            case 'ignore':
                return {
                    default: "ignore" /* Session.UserPromptHandlerType.Ignore */,
                    beforeUnload: "accept" /* Session.UserPromptHandlerType.Accept */,
                };
            default:
                throw new InvalidArgumentException(`Unexpected 'unhandledPromptBehavior' value: ${capabilityValue}`);
        }
    }
    async new(params) {
        if (this.#created) {
            throw new Error('Session has been already created.');
        }
        this.#created = true;
        const matchedCapabitlites = this.#mergeCapabilities(params.capabilities);
        await this.#initConnection(matchedCapabitlites);
        const version = await this.#browserCdpClient.sendCommand('Browser.getVersion');
        return {
            sessionId: 'unknown',
            capabilities: {
                ...matchedCapabitlites,
                acceptInsecureCerts: matchedCapabitlites.acceptInsecureCerts ?? false,
                browserName: version.product,
                browserVersion: version.revision,
                platformName: '',
                setWindowRect: false,
                webSocketUrl: '',
                userAgent: version.userAgent,
            },
        };
    }
    async subscribe(params, googChannel = null) {
        const subscription = await this.#eventManager.subscribe(params.events, params.contexts ?? [], params.userContexts ?? [], googChannel);
        return {
            subscription,
        };
    }
    async unsubscribe(params, googChannel = null) {
        if ('subscriptions' in params) {
            await this.#eventManager.unsubscribeByIds(params.subscriptions);
            return {};
        }
        await this.#eventManager.unsubscribe(params.events, googChannel);
        return {};
    }
}
//# sourceMappingURL=SessionProcessor.js.map