"use strict";
exports.__esModule = true;
/* eslint-disable @typescript-eslint/no-var-requires */
/* eslint-disable no-console */
var Benchmark = require("benchmark");
var mod_js_1 = require("./mod.js");
var fast_levenshtein_1 = require("fast-levenshtein");
var fs = require("fs");
var jslevenshtein = require("js-levenshtein");
var leven = require("leven");
var levenshteinEditDistance = require("levenshtein-edit-distance");
var suite = new Benchmark.Suite();
var randomstring = function (length) {
    var result = "";
    var characters = "ABCDEFGHIJKLMNOPQRSTUVWXYZabcdefghijklmnopqrstuvwxyz0123456789";
    var charactersLength = characters.length;
    for (var i = 0; i < length; i++) {
        result += characters.charAt(Math.floor(Math.random() * charactersLength));
    }
    return result;
};
var randomstringArr = function (stringSize, arraySize) {
    var i = 0;
    var arr = [];
    for (i = 0; i < arraySize; i++) {
        arr.push(randomstring(stringSize));
    }
    return arr;
};
var arrSize = 1000;
if (!fs.existsSync("data.json")) {
    var data_1 = [
        randomstringArr(4, arrSize),
        randomstringArr(8, arrSize),
        randomstringArr(16, arrSize),
        randomstringArr(32, arrSize),
        randomstringArr(64, arrSize),
        randomstringArr(128, arrSize),
        randomstringArr(256, arrSize),
        randomstringArr(512, arrSize),
        randomstringArr(1024, arrSize),
    ];
    fs.writeFileSync("data.json", JSON.stringify(data_1));
}
var data = JSON.parse(fs.readFileSync("data.json", "utf8"));
var _loop_1 = function (i) {
    var datapick = data[i];
    if (process.argv[2] !== "no") {
        suite
            .add("".concat(i, " - js-levenshtein"), function () {
            for (var j = 0; j < arrSize - 1; j += 2) {
                jslevenshtein(datapick[j], datapick[j + 1]);
            }
        })
            .add("".concat(i, " - leven"), function () {
            for (var j = 0; j < arrSize - 1; j += 2) {
                leven(datapick[j], datapick[j + 1]);
            }
        })
            .add("".concat(i, " - fast-levenshtein"), function () {
            for (var j = 0; j < arrSize - 1; j += 2) {
                (0, fast_levenshtein_1.get)(datapick[j], datapick[j + 1]);
            }
        })
            .add("".concat(i, " - levenshtein-edit-distance"), function () {
            for (var j = 0; j < arrSize - 1; j += 2) {
                levenshteinEditDistance(datapick[j], datapick[j + 1]);
            }
        });
    }
    suite.add("".concat(i, " - fastest-levenshtein"), function () {
        for (var j = 0; j < arrSize - 1; j += 2) {
            (0, mod_js_1.distance)(datapick[j], datapick[j + 1]);
        }
    });
};
// BENCHMARKS
for (var i = 0; i < 9; i++) {
    _loop_1(i);
}
var results = new Map();
suite
    .on("cycle", function (event) {
    console.log(String(event.target));
    if (results.has(event.target.name[0])) {
        results.get(event.target.name[0]).push(event.target.hz);
    }
    else {
        results.set(event.target.name[0], [event.target.hz]);
    }
})
    .on("complete", function () {
    console.log(results);
})
    // run async
    .run({ async: true });
