'use strict';

/*eslint-disable no-bitwise*/


var Type = require('../type');


// [ 64, 65, 66 ] -> [ padding, CR, LF ]
var BASE64_MAP = 'ABCDEFGHIJKLMNOPQRSTUVWXYZabcdefghijklmnopqrstuvwxyz0123456789+/=\n\r';


function resolveYamlBinary(data) {
  if (data === null) return false;

  var code, idx, bitlen = 0, max = data.length, map = BASE64_MAP;

  // Convert one by one.
  for (idx = 0; idx < max; idx++) {
    code = map.indexOf(data.charAt(idx));

    // Skip CR/LF
    if (code > 64) continue;

    // Fail on illegal characters
    if (code < 0) return false;

    bitlen += 6;
  }

  // If there are any bits left, source was corrupted
  return (bitlen % 8) === 0;
}

function constructYamlBinary(data) {
  var idx, tailbits,
      input = data.replace(/[\r\n=]/g, ''), // remove CR/LF & padding to simplify scan
      max = input.length,
      map = BASE64_MAP,
      bits = 0,
      result = [];

  // Collect by 6*4 bits (3 bytes)

  for (idx = 0; idx < max; idx++) {
    if ((idx % 4 === 0) && idx) {
      result.push((bits >> 16) & 0xFF);
      result.push((bits >> 8) & 0xFF);
      result.push(bits & 0xFF);
    }

    bits = (bits << 6) | map.indexOf(input.charAt(idx));
  }

  // Dump tail

  tailbits = (max % 4) * 6;

  if (tailbits === 0) {
    result.push((bits >> 16) & 0xFF);
    result.push((bits >> 8) & 0xFF);
    result.push(bits & 0xFF);
  } else if (tailbits === 18) {
    result.push((bits >> 10) & 0xFF);
    result.push((bits >> 2) & 0xFF);
  } else if (tailbits === 12) {
    result.push((bits >> 4) & 0xFF);
  }

  return new Uint8Array(result);
}

function representYamlBinary(object /*, style*/) {
  var result = '', bits = 0, idx, tail,
      max = object.length,
      map = BASE64_MAP;

  // Convert every three bytes to 4 ASCII characters.

  for (idx = 0; idx < max; idx++) {
    if ((idx % 3 === 0) && idx) {
      result += map[(bits >> 18) & 0x3F];
      result += map[(bits >> 12) & 0x3F];
      result += map[(bits >> 6) & 0x3F];
      result += map[bits & 0x3F];
    }

    bits = (bits << 8) + object[idx];
  }

  // Dump tail

  tail = max % 3;

  if (tail === 0) {
    result += map[(bits >> 18) & 0x3F];
    result += map[(bits >> 12) & 0x3F];
    result += map[(bits >> 6) & 0x3F];
    result += map[bits & 0x3F];
  } else if (tail === 2) {
    result += map[(bits >> 10) & 0x3F];
    result += map[(bits >> 4) & 0x3F];
    result += map[(bits << 2) & 0x3F];
    result += map[64];
  } else if (tail === 1) {
    result += map[(bits >> 2) & 0x3F];
    result += map[(bits << 4) & 0x3F];
    result += map[64];
    result += map[64];
  }

  return result;
}

function isBinary(obj) {
  return Object.prototype.toString.call(obj) ===  '[object Uint8Array]';
}

module.exports = new Type('tag:yaml.org,2002:binary', {
  kind: 'scalar',
  resolve: resolveYamlBinary,
  construct: constructYamlBinary,
  predicate: isBinary,
  represent: representYamlBinary
});
