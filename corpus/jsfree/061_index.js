const FixedFIFO = require('./fixed-size')

module.exports = class FastFIFO {
  constructor (hwm) {
    this.hwm = hwm || 16
    this.head = new FixedFIFO(this.hwm)
    this.tail = this.head
    this.length = 0
  }

  clear () {
    this.head = this.tail
    this.head.clear()
    this.length = 0
  }

  push (val) {
    this.length++
    if (!this.head.push(val)) {
      const prev = this.head
      this.head = prev.next = new FixedFIFO(2 * this.head.buffer.length)
      this.head.push(val)
    }
  }

  shift () {
    if (this.length !== 0) this.length--
    const val = this.tail.shift()
    if (val === undefined && this.tail.next) {
      const next = this.tail.next
      this.tail.next = null
      this.tail = next
      return this.tail.shift()
    }

    return val
  }

  peek () {
    const val = this.tail.peek()
    if (val === undefined && this.tail.next) return this.tail.next.peek()
    return val
  }

  isEmpty () {
    return this.length === 0
  }
}
