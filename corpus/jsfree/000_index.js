'use strict';

var has = require('has');
var regexExec = RegExp.prototype.exec;
var gOPD = Object.getOwnPropertyDescriptor;

var tryRegexExecCall = function tryRegexExec(value) {
	try {
		var lastIndex = value.lastIndex;
		value.lastIndex = 0;

		regexExec.call(value);
		return true;
	} catch (e) {
		return false;
	} finally {
		value.lastIndex = lastIndex;
	}
};
var toStr = Object.prototype.toString;
var regexClass = '[object RegExp]';
var hasToStringTag = typeof Symbol === 'function' && typeof Symbol.toStringTag === 'symbol';

module.exports = function isRegex(value) {
	if (!value || typeof value !== 'object') {
		return false;
	}
	if (!hasToStringTag) {
		return toStr.call(value) === regexClass;
	}

	var descriptor = gOPD(value, 'lastIndex');
	var hasLastIndexDataProperty = descriptor && has(descriptor, 'value');
	if (!hasLastIndexDataProperty) {
		return false;
	}

	return tryRegexExecCall(value);
};
