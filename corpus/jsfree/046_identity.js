// Copyright 2017 Joyent, Inc.

module.exports = Identity;

var assert = require('assert-plus');
var algs = require('./algs');
var crypto = require('crypto');
var Fingerprint = require('./fingerprint');
var Signature = require('./signature');
var errs = require('./errors');
var util = require('util');
var utils = require('./utils');
var asn1 = require('asn1');
var Buffer = require('safer-buffer').Buffer;

/*JSSTYLED*/
var DNS_NAME_RE = /^([*]|[a-z0-9][a-z0-9\-]{0,62})(?:\.([*]|[a-z0-9][a-z0-9\-]{0,62}))*$/i;

var oids = {};
oids.cn = '2.5.4.3';
oids.o = '2.5.4.10';
oids.ou = '2.5.4.11';
oids.l = '2.5.4.7';
oids.s = '2.5.4.8';
oids.c = '2.5.4.6';
oids.sn = '2.5.4.4';
oids.dc = '0.9.2342.19200300.100.1.25';
oids.uid = '0.9.2342.19200300.100.1.1';
oids.mail = '0.9.2342.19200300.100.1.3';

var unoids = {};
Object.keys(oids).forEach(function (k) {
	unoids[oids[k]] = k;
});

function Identity(opts) {
	var self = this;
	assert.object(opts, 'options');
	assert.arrayOfObject(opts.components, 'options.components');
	this.components = opts.components;
	this.componentLookup = {};
	this.components.forEach(function (c) {
		if (c.name && !c.oid)
			c.oid = oids[c.name];
		if (c.oid && !c.name)
			c.name = unoids[c.oid];
		if (self.componentLookup[c.name] === undefined)
			self.componentLookup[c.name] = [];
		self.componentLookup[c.name].push(c);
	});
	if (this.componentLookup.cn && this.componentLookup.cn.length > 0) {
		this.cn = this.componentLookup.cn[0].value;
	}
	assert.optionalString(opts.type, 'options.type');
	if (opts.type === undefined) {
		if (this.components.length === 1 &&
		    this.componentLookup.cn &&
		    this.componentLookup.cn.length === 1 &&
		    this.componentLookup.cn[0].value.match(DNS_NAME_RE)) {
			this.type = 'host';
			this.hostname = this.componentLookup.cn[0].value;

		} else if (this.componentLookup.dc &&
		    this.components.length === this.componentLookup.dc.length) {
			this.type = 'host';
			this.hostname = this.componentLookup.dc.map(
			    function (c) {
				return (c.value);
			}).join('.');

		} else if (this.componentLookup.uid &&
		    this.components.length ===
		    this.componentLookup.uid.length) {
			this.type = 'user';
			this.uid = this.componentLookup.uid[0].value;

		} else if (this.componentLookup.cn &&
		    this.componentLookup.cn.length === 1 &&
		    this.componentLookup.cn[0].value.match(DNS_NAME_RE)) {
			this.type = 'host';
			this.hostname = this.componentLookup.cn[0].value;

		} else if (this.componentLookup.uid &&
		    this.componentLookup.uid.length === 1) {
			this.type = 'user';
			this.uid = this.componentLookup.uid[0].value;

		} else if (this.componentLookup.mail &&
		    this.componentLookup.mail.length === 1) {
			this.type = 'email';
			this.email = this.componentLookup.mail[0].value;

		} else if (this.componentLookup.cn &&
		    this.componentLookup.cn.length === 1) {
			this.type = 'user';
			this.uid = this.componentLookup.cn[0].value;

		} else {
			this.type = 'unknown';
		}
	} else {
		this.type = opts.type;
		if (this.type === 'host')
			this.hostname = opts.hostname;
		else if (this.type === 'user')
			this.uid = opts.uid;
		else if (this.type === 'email')
			this.email = opts.email;
		else
			throw (new Error('Unknown type ' + this.type));
	}
}

Identity.prototype.toString = function () {
	return (this.components.map(function (c) {
		return (c.name.toUpperCase() + '=' + c.value);
	}).join(', '));
};

/*
 * These are from X.680 -- PrintableString allowed chars are in section 37.4
 * table 8. Spec for IA5Strings is "1,6 + SPACE + DEL" where 1 refers to
 * ISO IR #001 (standard ASCII control characters) and 6 refers to ISO IR #006
 * (the basic ASCII character set).
 */
/* JSSTYLED */
var NOT_PRINTABLE = /[^a-zA-Z0-9 '(),+.\/:=?-]/;
/* JSSTYLED */
var NOT_IA5 = /[^\x00-\x7f]/;

Identity.prototype.toAsn1 = function (der, tag) {
	der.startSequence(tag);
	this.components.forEach(function (c) {
		der.startSequence(asn1.Ber.Constructor | asn1.Ber.Set);
		der.startSequence();
		der.writeOID(c.oid);
		/*
		 * If we fit in a PrintableString, use that. Otherwise use an
		 * IA5String or UTF8String.
		 *
		 * If this identity was parsed from a DN, use the ASN.1 types
		 * from the original representation (otherwise this might not
		 * be a full match for the original in some validators).
		 */
		if (c.asn1type === asn1.Ber.Utf8String ||
		    c.value.match(NOT_IA5)) {
			var v = Buffer.from(c.value, 'utf8');
			der.writeBuffer(v, asn1.Ber.Utf8String);

		} else if (c.asn1type === asn1.Ber.IA5String ||
		    c.value.match(NOT_PRINTABLE)) {
			der.writeString(c.value, asn1.Ber.IA5String);

		} else {
			var type = asn1.Ber.PrintableString;
			if (c.asn1type !== undefined)
				type = c.asn1type;
			der.writeString(c.value, type);
		}
		der.endSequence();
		der.endSequence();
	});
	der.endSequence();
};

function globMatch(a, b) {
	if (a === '**' || b === '**')
		return (true);
	var aParts = a.split('.');
	var bParts = b.split('.');
	if (aParts.length !== bParts.length)
		return (false);
	for (var i = 0; i < aParts.length; ++i) {
		if (aParts[i] === '*' || bParts[i] === '*')
			continue;
		if (aParts[i] !== bParts[i])
			return (false);
	}
	return (true);
}

Identity.prototype.equals = function (other) {
	if (!Identity.isIdentity(other, [1, 0]))
		return (false);
	if (other.components.length !== this.components.length)
		return (false);
	for (var i = 0; i < this.components.length; ++i) {
		if (this.components[i].oid !== other.components[i].oid)
			return (false);
		if (!globMatch(this.components[i].value,
		    other.components[i].value)) {
			return (false);
		}
	}
	return (true);
};

Identity.forHost = function (hostname) {
	assert.string(hostname, 'hostname');
	return (new Identity({
		type: 'host',
		hostname: hostname,
		components: [ { name: 'cn', value: hostname } ]
	}));
};

Identity.forUser = function (uid) {
	assert.string(uid, 'uid');
	return (new Identity({
		type: 'user',
		uid: uid,
		components: [ { name: 'uid', value: uid } ]
	}));
};

Identity.forEmail = function (email) {
	assert.string(email, 'email');
	return (new Identity({
		type: 'email',
		email: email,
		components: [ { name: 'mail', value: email } ]
	}));
};

Identity.parseDN = function (dn) {
	assert.string(dn, 'dn');
	var parts = dn.split(',');
	var cmps = parts.map(function (c) {
		c = c.trim();
		var eqPos = c.indexOf('=');
		var name = c.slice(0, eqPos).toLowerCase();
		var value = c.slice(eqPos + 1);
		return ({ name: name, value: value });
	});
	return (new Identity({ components: cmps }));
};

Identity.parseAsn1 = function (der, top) {
	var components = [];
	der.readSequence(top);
	var end = der.offset + der.length;
	while (der.offset < end) {
		der.readSequence(asn1.Ber.Constructor | asn1.Ber.Set);
		var after = der.offset + der.length;
		der.readSequence();
		var oid = der.readOID();
		var type = der.peek();
		var value;
		switch (type) {
		case asn1.Ber.PrintableString:
		case asn1.Ber.IA5String:
		case asn1.Ber.OctetString:
		case asn1.Ber.T61String:
			value = der.readString(type);
			break;
		case asn1.Ber.Utf8String:
			value = der.readString(type, true);
			value = value.toString('utf8');
			break;
		case asn1.Ber.CharacterString:
		case asn1.Ber.BMPString:
			value = der.readString(type, true);
			value = value.toString('utf16le');
			break;
		default:
			throw (new Error('Unknown asn1 type ' + type));
		}
		components.push({ oid: oid, asn1type: type, value: value });
		der._offset = after;
	}
	der._offset = end;
	return (new Identity({
		components: components
	}));
};

Identity.isIdentity = function (obj, ver) {
	return (utils.isCompatible(obj, Identity, ver));
};

/*
 * API versions for Identity:
 * [1,0] -- initial ver
 */
Identity.prototype._sshpkApiVersion = [1, 0];

Identity._oldVersionDetect = function (obj) {
	return ([1, 0]);
};
