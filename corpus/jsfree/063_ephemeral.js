"use strict";
var __importDefault = (this && this.__importDefault) || function (mod) {
    return (mod && mod.__esModule) ? mod : { "default": mod };
};
Object.defineProperty(exports, "__esModule", { value: true });
exports.EphemeralSigner = void 0;
/*
Copyright 2023 The Sigstore Authors.

Licensed under the Apache License, Version 2.0 (the "License");
you may not use this file except in compliance with the License.
You may obtain a copy of the License at

    http://www.apache.org/licenses/LICENSE-2.0

Unless required by applicable law or agreed to in writing, software
distributed under the License is distributed on an "AS IS" BASIS,
WITHOUT WARRANTIES OR CONDITIONS OF ANY KIND, either express or implied.
See the License for the specific language governing permissions and
limitations under the License.
*/
const crypto_1 = __importDefault(require("crypto"));
const EC_KEYPAIR_TYPE = 'ec';
const P256_CURVE = 'P-256';
// Signer implementation which uses an ephemeral keypair to sign artifacts.
// The private key lives only in memory and is tied to the lifetime of the
// EphemeralSigner instance.
class EphemeralSigner {
    constructor() {
        this.keypair = crypto_1.default.generateKeyPairSync(EC_KEYPAIR_TYPE, {
            namedCurve: P256_CURVE,
        });
    }
    async sign(data) {
        const signature = crypto_1.default.sign(null, data, this.keypair.privateKey);
        const publicKey = this.keypair.publicKey
            .export({ format: 'pem', type: 'spki' })
            .toString('ascii');
        return {
            signature: signature,
            key: { $case: 'publicKey', publicKey },
        };
    }
}
exports.EphemeralSigner = EphemeralSigner;
