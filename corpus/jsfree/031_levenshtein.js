/*
Copyright (c) 2011 Andrei Mackenzie

Permission is hereby granted, free of charge, to any person obtaining a copy of
this software and associated documentation files (the "Software"), to deal in
the Software without restriction, including without limitation the rights to
use, copy, modify, merge, publish, distribute, sublicense, and/or sell copies of
the Software, and to permit persons to whom the Software is furnished to do so,
subject to the following conditions:

The above copyright notice and this permission notice shall be included in all
copies or substantial portions of the Software.

THE SOFTWARE IS PROVIDED "AS IS", WITHOUT WARRANTY OF ANY KIND, EXPRESS OR
IMPLIED, INCLUDING BUT NOT LIMITED TO THE WARRANTIES OF MERCHANTABILITY, FITNESS
FOR A PARTICULAR PURPOSE AND NONINFRINGEMENT. IN NO EVENT SHALL THE AUTHORS OR
COPYRIGHT HOLDERS BE LIABLE FOR ANY CLAIM, DAMAGES OR OTHER LIABILITY, WHETHER
IN AN ACTION OF CONTRACT, TORT OR OTHERWISE, ARISING FROM, OUT OF OR IN
CONNECTION WITH THE SOFTWARE OR THE USE OR OTHER DEALINGS IN THE SOFTWARE.
*/

// levenshtein distance algorithm, pulled from Andrei Mackenzie's MIT licensed.
// gist, which can be found here: https://gist.github.com/andrei-m/982927
'use strict'
// Compute the edit distance between the two given strings
module.exports = function levenshtein (a, b) {
  if (a.length === 0) return b.length
  if (b.length === 0) return a.length

  const matrix = []

  // increment along the first column of each row
  let i
  for (i = 0; i <= b.length; i++) {
    matrix[i] = [i]
  }

  // increment each column in the first row
  let j
  for (j = 0; j <= a.length; j++) {
    matrix[0][j] = j
  }

  // Fill in the rest of the matrix
  for (i = 1; i <= b.length; i++) {
    for (j = 1; j <= a.length; j++) {
      if (b.charAt(i - 1) === a.charAt(j - 1)) {
        matrix[i][j] = matrix[i - 1][j - 1]
      } else {
        matrix[i][j] = Math.min(matrix[i - 1][j - 1] + 1, // substitution
          Math.min(matrix[i][j - 1] + 1, // insertion
            matrix[i - 1][j] + 1)) // deletion
      }
    }
  }

  return matrix[b.length][a.length]
}
