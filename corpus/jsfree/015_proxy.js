'use strict'

const { HttpProxyAgent } = require('http-proxy-agent')
const { HttpsProxyAgent } = require('https-proxy-agent')
const { SocksProxyAgent } = require('socks-proxy-agent')
const { LRUCache } = require('lru-cache')
const { InvalidProxyProtocolError } = require('./errors.js')

const PROXY_CACHE = new LRUCache({ max: 20 })

const SOCKS_PROTOCOLS = new Set(SocksProxyAgent.protocols)

const PROXY_ENV_KEYS = new Set(['https_proxy', 'http_proxy', 'proxy', 'no_proxy'])

const PROXY_ENV = Object.entries(process.env).reduce((acc, [key, value]) => {
  key = key.toLowerCase()
  if (PROXY_ENV_KEYS.has(key)) {
    acc[key] = value
  }
  return acc
}, {})

const getProxyAgent = (url) => {
  url = new URL(url)

  const protocol = url.protocol.slice(0, -1)
  if (SOCKS_PROTOCOLS.has(protocol)) {
    return SocksProxyAgent
  }
  if (protocol === 'https' || protocol === 'http') {
    return [HttpProxyAgent, HttpsProxyAgent]
  }

  throw new InvalidProxyProtocolError(url)
}

const isNoProxy = (url, noProxy) => {
  if (typeof noProxy === 'string') {
    noProxy = noProxy.split(',').map((p) => p.trim()).filter(Boolean)
  }

  if (!noProxy || !noProxy.length) {
    return false
  }

  const hostSegments = url.hostname.split('.').reverse()

  return noProxy.some((no) => {
    const noSegments = no.split('.').filter(Boolean).reverse()
    if (!noSegments.length) {
      return false
    }

    for (let i = 0; i < noSegments.length; i++) {
      if (hostSegments[i] !== noSegments[i]) {
        return false
      }
    }

    return true
  })
}

const getProxy = (url, { proxy, noProxy }) => {
  url = new URL(url)

  if (!proxy) {
    proxy = url.protocol === 'https:'
      ? PROXY_ENV.https_proxy
      : PROXY_ENV.https_proxy || PROXY_ENV.http_proxy || PROXY_ENV.proxy
  }

  if (!noProxy) {
    noProxy = PROXY_ENV.no_proxy
  }

  if (!proxy || isNoProxy(url, noProxy)) {
    return null
  }

  return new URL(proxy)
}

module.exports = {
  getProxyAgent,
  getProxy,
  proxyCache: PROXY_CACHE,
}
