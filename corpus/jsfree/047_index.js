'use strict';
const pLimit = require('p-limit');

class EndError extends Error {
	constructor(value) {
		super();
		this.value = value;
	}
}

// The input can also be a promise, so we `Promise.resolve()` it
const testElement = (el, tester) => Promise.resolve(el).then(tester);

// The input can also be a promise, so we `Promise.all()` them both
const finder = el => Promise.all(el).then(val => val[1] === true && Promise.reject(new EndError(val[0])));

module.exports = (iterable, tester, opts) => {
	opts = Object.assign({
		concurrency: Infinity,
		preserveOrder: true
	}, opts);

	const limit = pLimit(opts.concurrency);

	// Start all the promises concurrently with optional limit
	const items = [...iterable].map(el => [el, limit(testElement, el, tester)]);

	// Check the promises either serially or concurrently
	const checkLimit = pLimit(opts.preserveOrder ? 1 : Infinity);

	return Promise.all(items.map(el => checkLimit(finder, el)))
		.then(() => {})
		.catch(err => err instanceof EndError ? err.value : Promise.reject(err));
};
