/**
 * @license
 * Copyright 2021 Google Inc.
 * SPDX-License-Identifier: Apache-2.0
 */
/**
 * A list of pre-defined network conditions to be used with
 * {@link Page.emulateNetworkConditions}.
 *
 * @example
 *
 * ```ts
 * import {PredefinedNetworkConditions} from 'puppeteer';
 * const browser = await puppeteer.launch();
 * const page = await browser.newPage();
 * await page.emulateNetworkConditions(PredefinedNetworkConditions['Slow 3G']);
 * await page.goto('https://www.google.com');
 * await page.emulateNetworkConditions(PredefinedNetworkConditions['Fast 3G']);
 * await page.goto('https://www.google.com');
 * // alias to Fast 3G.
 * await page.emulateNetworkConditions(PredefinedNetworkConditions['Slow 4G']);
 * await page.goto('https://www.google.com');
 * await page.emulateNetworkConditions(PredefinedNetworkConditions['Fast 4G']);
 * await page.goto('https://www.google.com');
 * // other actions...
 * await browser.close();
 * ```
 *
 * @public
 */
export const PredefinedNetworkConditions = Object.freeze({
    // Generally aligned with DevTools
    // https://source.chromium.org/chromium/chromium/src/+/main:third_party/devtools-frontend/src/front_end/core/sdk/NetworkManager.ts;l=398;drc=225e1240f522ca684473f541ae6dae6cd766dd33.
    'Slow 3G': {
        // ~500Kbps down
        download: ((500 * 1000) / 8) * 0.8,
        // ~500Kbps up
        upload: ((500 * 1000) / 8) * 0.8,
        // 400ms RTT
        latency: 400 * 5,
    },
    'Fast 3G': {
        // ~1.6 Mbps down
        download: ((1.6 * 1000 * 1000) / 8) * 0.9,
        // ~0.75 Mbps up
        upload: ((750 * 1000) / 8) * 0.9,
        // 150ms RTT
        latency: 150 * 3.75,
    },
    // alias to Fast 3G to align with Lighthouse (crbug.com/342406608)
    // and DevTools (crbug.com/342406608),
    'Slow 4G': {
        // ~1.6 Mbps down
        download: ((1.6 * 1000 * 1000) / 8) * 0.9,
        // ~0.75 Mbps up
        upload: ((750 * 1000) / 8) * 0.9,
        // 150ms RTT
        latency: 150 * 3.75,
    },
    'Fast 4G': {
        // 9 Mbps down
        download: ((9 * 1000 * 1000) / 8) * 0.9,
        // 1.5 Mbps up
        upload: ((1.5 * 1000 * 1000) / 8) * 0.9,
        // 60ms RTT
        latency: 60 * 2.75,
    },
});
//# sourceMappingURL=PredefinedNetworkConditions.js.map