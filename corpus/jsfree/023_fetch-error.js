'use strict'
class FetchError extends Error {
  constructor (message, type, systemError) {
    super(message)
    this.code = 'FETCH_ERROR'

    // pick up code, expected, path, ...
    if (systemError) {
      Object.assign(this, systemError)
    }

    this.errno = this.code

    // override anything the system error might've clobbered
    this.type = this.code === 'EBADSIZE' && this.found > this.expect
      ? 'max-size' : type
    this.message = message
    Error.captureStackTrace(this, this.constructor)
  }

  get name () {
    return 'FetchError'
  }

  // don't allow name to be overwritten
  set name (n) {}

  get [Symbol.toStringTag] () {
    return 'FetchError'
  }
}
module.exports = FetchError
