var QRMath = {

	glog : function(n) {
	
		if (n < 1) {
			throw new Error("glog(" + n + ")");
		}
		
		return QRMath.LOG_TABLE[n];
	},
	
	gexp : function(n) {
	
		while (n < 0) {
			n += 255;
		}
	
		while (n >= 256) {
			n -= 255;
		}
	
		return QRMath.EXP_TABLE[n];
	},
	
	EXP_TABLE : new Array(256),
	
	LOG_TABLE : new Array(256)

};
	
for (var i = 0; i < 8; i++) {
	QRMath.EXP_TABLE[i] = 1 << i;
}
for (var i = 8; i < 256; i++) {
	QRMath.EXP_TABLE[i] = QRMath.EXP_TABLE[i - 4]
		^ QRMath.EXP_TABLE[i - 5]
		^ QRMath.EXP_TABLE[i - 6]
		^ QRMath.EXP_TABLE[i - 8];
}
for (var i = 0; i < 255; i++) {
	QRMath.LOG_TABLE[QRMath.EXP_TABLE[i] ] = i;
}

module.exports = QRMath;
