"use strict";
Object.defineProperty(exports, "__esModule", { value: true });
exports.verifyTLogBody = verifyTLogBody;
/*
Copyright 2023 The Sigstore Authors.

Licensed under the Apache License, Version 2.0 (the "License");
you may not use this file except in compliance with the License.
You may obtain a copy of the License at

    http://www.apache.org/licenses/LICENSE-2.0

Unless required by applicable law or agreed to in writing, software
distributed under the License is distributed on an "AS IS" BASIS,
WITHOUT WARRANTIES OR CONDITIONS OF ANY KIND, either express or implied.
See the License for the specific language governing permissions and
limitations under the License.
*/
const error_1 = require("../error");
const dsse_1 = require("./dsse");
const hashedrekord_1 = require("./hashedrekord");
const intoto_1 = require("./intoto");
// Verifies that the given tlog entry matches the supplied signature content.
function verifyTLogBody(entry, sigContent) {
    const { kind, version } = entry.kindVersion;
    const body = JSON.parse(entry.canonicalizedBody.toString('utf8'));
    if (kind !== body.kind || version !== body.apiVersion) {
        throw new error_1.VerificationError({
            code: 'TLOG_BODY_ERROR',
            message: `kind/version mismatch - expected: ${kind}/${version}, received: ${body.kind}/${body.apiVersion}`,
        });
    }
    switch (body.kind) {
        case 'dsse':
            return (0, dsse_1.verifyDSSETLogBody)(body, sigContent);
        case 'intoto':
            return (0, intoto_1.verifyIntotoTLogBody)(body, sigContent);
        case 'hashedrekord':
            return (0, hashedrekord_1.verifyHashedRekordTLogBody)(body, sigContent);
        /* istanbul ignore next */
        default:
            throw new error_1.VerificationError({
                code: 'TLOG_BODY_ERROR',
                message: `unsupported kind: ${kind}`,
            });
    }
}
