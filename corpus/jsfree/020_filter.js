"use strict";
Object.defineProperty(exports, "__esModule", { value: true });
exports.filterCertAuthorities = filterCertAuthorities;
exports.filterTLogAuthorities = filterTLogAuthorities;
function filterCertAuthorities(certAuthorities, timestamp) {
    return certAuthorities.filter((ca) => {
        return ca.validFor.start <= timestamp && ca.validFor.end >= timestamp;
    });
}
// Filter the list of tlog instances to only those which match the given log
// ID and have public keys which are valid for the given integrated time.
function filterTLogAuthorities(tlogAuthorities, criteria) {
    return tlogAuthorities.filter((tlog) => {
        // If we're filtering by log ID and the log IDs don't match, we can't use
        // this tlog
        if (criteria.logID && !tlog.logID.equals(criteria.logID)) {
            return false;
        }
        // Check that the integrated time is within the validFor range
        return (tlog.validFor.start <= criteria.targetDate &&
            criteria.targetDate <= tlog.validFor.end);
    });
}
