'use strict';
const { getBooleanOption, cppdb } = require('../util');

module.exports = function defineAggregate(name, options) {
	// Validate arguments
	if (typeof name !== 'string') throw new TypeError('Expected first argument to be a string');
	if (typeof options !== 'object' || options === null) throw new TypeError('Expected second argument to be an options object');
	if (!name) throw new TypeError('User-defined function name cannot be an empty string');

	// Interpret options
	const start = 'start' in options ? options.start : null;
	const step = getFunctionOption(options, 'step', true);
	const inverse = getFunctionOption(options, 'inverse', false);
	const result = getFunctionOption(options, 'result', false);
	const safeIntegers = 'safeIntegers' in options ? +getBooleanOption(options, 'safeIntegers') : 2;
	const deterministic = getBooleanOption(options, 'deterministic');
	const directOnly = getBooleanOption(options, 'directOnly');
	const varargs = getBooleanOption(options, 'varargs');
	let argCount = -1;

	// Determine argument count
	if (!varargs) {
		argCount = Math.max(getLength(step), inverse ? getLength(inverse) : 0);
		if (argCount > 0) argCount -= 1;
		if (argCount > 100) throw new RangeError('User-defined functions cannot have more than 100 arguments');
	}

	this[cppdb].aggregate(start, step, inverse, result, name, argCount, safeIntegers, deterministic, directOnly);
	return this;
};

const getFunctionOption = (options, key, required) => {
	const value = key in options ? options[key] : null;
	if (typeof value === 'function') return value;
	if (value != null) throw new TypeError(`Expected the "${key}" option to be a function`);
	if (required) throw new TypeError(`Missing required option "${key}"`);
	return null;
};

const getLength = ({ length }) => {
	if (Number.isInteger(length) && length >= 0) return length;
	throw new TypeError('Expected function.length to be a positive integer');
};
