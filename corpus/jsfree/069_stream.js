"use strict";
Object.defineProperty(exports, "__esModule", { value: true });
exports.ByteStream = void 0;
/*
Copyright 2023 The Sigstore Authors.

Licensed under the Apache License, Version 2.0 (the "License");
you may not use this file except in compliance with the License.
You may obtain a copy of the License at

    http://www.apache.org/licenses/LICENSE-2.0

Unless required by applicable law or agreed to in writing, software
distributed under the License is distributed on an "AS IS" BASIS,
WITHOUT WARRANTIES OR CONDITIONS OF ANY KIND, either express or implied.
See the License for the specific language governing permissions and
limitations under the License.
*/
class StreamError extends Error {
}
class ByteStream {
    constructor(buffer) {
        this.start = 0;
        if (buffer) {
            this.buf = buffer;
            this.view = Buffer.from(buffer);
        }
        else {
            this.buf = new ArrayBuffer(0);
            this.view = Buffer.from(this.buf);
        }
    }
    get buffer() {
        return this.view.subarray(0, this.start);
    }
    get length() {
        return this.view.byteLength;
    }
    get position() {
        return this.start;
    }
    seek(position) {
        this.start = position;
    }
    // Returns a Buffer containing the specified number of bytes starting at the
    // given start position.
    slice(start, len) {
        const end = start + len;
        if (end > this.length) {
            throw new StreamError('request past end of buffer');
        }
        return this.view.subarray(start, end);
    }
    appendChar(char) {
        this.ensureCapacity(1);
        this.view[this.start] = char;
        this.start += 1;
    }
    appendUint16(num) {
        this.ensureCapacity(2);
        const value = new Uint16Array([num]);
        const view = new Uint8Array(value.buffer);
        this.view[this.start] = view[1];
        this.view[this.start + 1] = view[0];
        this.start += 2;
    }
    appendUint24(num) {
        this.ensureCapacity(3);
        const value = new Uint32Array([num]);
        const view = new Uint8Array(value.buffer);
        this.view[this.start] = view[2];
        this.view[this.start + 1] = view[1];
        this.view[this.start + 2] = view[0];
        this.start += 3;
    }
    appendView(view) {
        this.ensureCapacity(view.length);
        this.view.set(view, this.start);
        this.start += view.length;
    }
    getBlock(size) {
        if (size <= 0) {
            return Buffer.alloc(0);
        }
        if (this.start + size > this.view.length) {
            throw new Error('request past end of buffer');
        }
        const result = this.view.subarray(this.start, this.start + size);
        this.start += size;
        return result;
    }
    getUint8() {
        return this.getBlock(1)[0];
    }
    getUint16() {
        const block = this.getBlock(2);
        return (block[0] << 8) | block[1];
    }
    ensureCapacity(size) {
        if (this.start + size > this.view.byteLength) {
            const blockSize = ByteStream.BLOCK_SIZE + (size > ByteStream.BLOCK_SIZE ? size : 0);
            this.realloc(this.view.byteLength + blockSize);
        }
    }
    realloc(size) {
        const newArray = new ArrayBuffer(size);
        const newView = Buffer.from(newArray);
        // Copy the old buffer into the new one
        newView.set(this.view);
        this.buf = newArray;
        this.view = newView;
    }
}
exports.ByteStream = ByteStream;
ByteStream.BLOCK_SIZE = 1024;
