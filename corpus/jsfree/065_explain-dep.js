const { relative } = require('node:path')

const explainNode = (node, depth, chalk) =>
  printNode(node, chalk) +
  explainDependents(node, depth, chalk) +
  explainLinksIn(node, depth, chalk)

const colorType = (type, chalk) => {
  const style = type === 'extraneous' ? chalk.red
    : type === 'dev' ? chalk.blue
    : type === 'optional' ? chalk.magenta
    : type === 'peer' ? chalk.magentaBright
    : type === 'bundled' ? chalk.underline.cyan
    : type === 'workspace' ? chalk.blueBright
    : type === 'overridden' ? chalk.dim
    : /* istanbul ignore next */ s => s
  return style(type)
}

const printNode = (node, chalk) => {
  const extra = []

  for (const meta of ['extraneous', 'dev', 'optional', 'peer', 'bundled', 'overridden']) {
    if (node[meta]) {
      extra.push(` ${colorType(meta, chalk)}`)
    }
  }

  const pkgid = node.isWorkspace
    ? chalk.blueBright(`${node.name}@${node.version}`)
    : `${node.name}@${node.version}`

  return `${pkgid}${extra.join('')}` +
    (node.location ? chalk.dim(`\n${node.location}`) : '')
}

const explainLinksIn = ({ linksIn }, depth, chalk) => {
  if (!linksIn || !linksIn.length || depth <= 0) {
    return ''
  }

  const messages = linksIn.map(link => explainNode(link, depth - 1, chalk))
  const str = '\n' + messages.join('\n')
  return str.split('\n').join('\n  ')
}

const explainDependents = ({ dependents }, depth, chalk) => {
  if (!dependents || !dependents.length || depth <= 0) {
    return ''
  }

  const max = Math.ceil(depth / 2)
  const messages = dependents.slice(0, max)
    .map(edge => explainEdge(edge, depth, chalk))

  // show just the names of the first 5 deps that overflowed the list
  if (dependents.length > max) {
    let len = 0
    const maxLen = 50
    const showNames = []
    for (let i = max; i < dependents.length; i++) {
      const { from: { name: depName = 'the root project' } } = dependents[i]
      len += depName.length
      if (len >= maxLen && i < dependents.length - 1) {
        showNames.push('...')
        break
      }
      showNames.push(depName)
    }
    const show = `(${showNames.join(', ')})`
    messages.push(`${dependents.length - max} more ${show}`)
  }

  const str = '\n' + messages.join('\n')
  return str.split('\n').join('\n  ')
}

const explainEdge = ({ name, type, bundled, from, spec, rawSpec, overridden }, depth, chalk) => {
  let dep = type === 'workspace'
    ? chalk.bold(relative(from.location, spec.slice('file:'.length)))
    : `${name}@"${spec}"`
  if (overridden) {
    dep = `${colorType('overridden', chalk)} ${dep} (was "${rawSpec}")`
  }

  const fromMsg = ` from ${explainFrom(from, depth, chalk)}`

  return (type === 'prod' ? '' : `${colorType(type, chalk)} `) +
    (bundled ? `${colorType('bundled', chalk)} ` : '') +
    `${dep}${fromMsg}`
}

const explainFrom = (from, depth, chalk) => {
  if (!from.name && !from.version) {
    return 'the root project'
  }

  return printNode(from, chalk) +
    explainDependents(from, depth - 1, chalk) +
    explainLinksIn(from, depth - 1, chalk)
}

module.exports = { explainNode, printNode, explainEdge }
