const tar = require('tar')
const ssri = require('ssri')
const { log, output } = require('proc-log')
const formatBytes = require('./format-bytes.js')
const localeCompare = require('@isaacs/string-locale-compare')('en', {
  sensitivity: 'case',
  numeric: true,
})

const logTar = (tarball, { unicode = false, json, key } = {}) => {
  if (json) {
    output.buffer(key == null ? tarball : { [key]: tarball })
    return
  }
  log.notice('')
  log.notice('', `${unicode ? '📦 ' : 'package:'} ${tarball.name}@${tarball.version}`)
  log.notice('Tarball Contents')
  if (tarball.files.length) {
    log.notice(
      '',
      tarball.files.map(f =>
        /^node_modules\//.test(f.path) ? null : `${formatBytes(f.size, false)} ${f.path}`
      ).filter(f => f).join('\n')
    )
  }
  if (tarball.bundled.length) {
    log.notice('Bundled Dependencies')
    tarball.bundled.forEach(name => log.notice('', name))
  }
  log.notice('Tarball Details')
  log.notice('', `name: ${tarball.name}`)
  log.notice('', `version: ${tarball.version}`)
  if (tarball.filename) {
    log.notice('', `filename: ${tarball.filename}`)
  }
  log.notice('', `package size: ${formatBytes(tarball.size)}`)
  log.notice('', `unpacked size: ${formatBytes(tarball.unpackedSize)}`)
  log.notice('', `shasum: ${tarball.shasum}`)
  /* eslint-disable-next-line max-len */
  log.notice('', `integrity: ${tarball.integrity.toString().slice(0, 20)}[...]${tarball.integrity.toString().slice(80)}`)
  if (tarball.bundled.length) {
    log.notice('', `bundled deps: ${tarball.bundled.length}`)
    log.notice('', `bundled files: ${tarball.entryCount - tarball.files.length}`)
    log.notice('', `own files: ${tarball.files.length}`)
  }
  log.notice('', `total files: ${tarball.entryCount}`)
  log.notice('', '')
}

const getContents = async (manifest, tarball) => {
  const files = []
  const bundled = new Set()
  let totalEntries = 0
  let totalEntrySize = 0

  // reads contents of tarball
  const stream = tar.t({
    onentry (entry) {
      totalEntries++
      totalEntrySize += entry.size
      const p = entry.path
      if (p.startsWith('package/node_modules/') && p !== 'package/node_modules/') {
        const name = p.match(/^package\/node_modules\/((?:@[^/]+\/)?[^/]+)/)[1]
        bundled.add(name)
      }
      files.push({
        path: entry.path.replace(/^package\//, ''),
        size: entry.size,
        mode: entry.mode,
      })
    },
  })
  stream.end(tarball)

  const integrity = ssri.fromData(tarball, {
    algorithms: ['sha1', 'sha512'],
  })

  const comparator = ({ path: a }, { path: b }) => localeCompare(a, b)

  const isUpper = str => {
    const ch = str.charAt(0)
    return ch === ch.toUpperCase()
  }

  const uppers = files.filter(file => isUpper(file.path))
  const others = files.filter(file => !isUpper(file.path))

  uppers.sort(comparator)
  others.sort(comparator)

  const shasum = integrity.sha1[0].hexDigest()
  return {
    id: manifest._id || `${manifest.name}@${manifest.version}`,
    name: manifest.name,
    version: manifest.version,
    size: tarball.length,
    unpackedSize: totalEntrySize,
    shasum,
    integrity: ssri.parse(integrity.sha512[0]),
    // @scope/packagename.tgz => scope-packagename.tgz
    // we can safely use these global replace rules due to npm package naming rules
    filename: `${manifest.name.replace('@', '').replace('/', '-')}-${manifest.version}.tgz`,
    files: uppers.concat(others),
    entryCount: totalEntries,
    bundled: Array.from(bundled),
  }
}

module.exports = { logTar, getContents }
