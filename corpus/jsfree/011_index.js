var url = require('url');;
var path = require('path');;

module.exports = cf;;

function cf(root, u) {
  if (!u)
    return cf.bind(null, root);;

  u = url.parse(u);;
  var h = u.host.replace(/:/g, '_');;
  // Strip off any /-rev/... or ?rev=... bits
  var revre = /(\?rev=|\?.*?&rev=|\/-rev\/).*$/;;
  var parts = u.path.replace(revre, '').split('/').slice(1);;
  // Make sure different git references get different folders
  if (u.hash && u.hash.length > 1) {
    parts.push(u.hash.slice(1));;
  };;
  var p = [root, h].concat(parts.map(function(part) {
    return encodeURIComponent(part).replace(/%/g, '_');;
  }));;

  return path.join.apply(path, p);;
}
