/**
 * @license
 * Copyright 2023 Google Inc.
 * SPDX-License-Identifier: Apache-2.0
 */
import { QueryHandler } from './QueryHandler.js';
/**
 * @internal
 */
export class PierceQueryHandler extends QueryHandler {
    static querySelector = (element, selector, { pierceQuerySelector }) => {
        return pierceQuerySelector(element, selector);
    };
    static querySelectorAll = (element, selector, { pierceQuerySelectorAll }) => {
        return pierceQuerySelectorAll(element, selector);
    };
}
//# sourceMappingURL=PierceQueryHandler.js.map