"use strict";
var __importDefault = (this && this.__importDefault) || function (mod) {
    return (mod && mod.__esModule) ? mod : { "default": mod };
};
Object.defineProperty(exports, "__esModule", { value: true });
exports.allSignals = void 0;
const node_constants_1 = __importDefault(require("node:constants"));
exports.allSignals =
// this is the full list of signals that Node will let us do anything with
Object.keys(node_constants_1.default).filter(k => k.startsWith('SIG') &&
    // https://github.com/tapjs/signal-exit/issues/21
    k !== 'SIGPROF' &&
    // no sense trying to listen for SIGKILL, it's impossible
    k !== 'SIGKILL');
// These are some obscure signals that are reported by kill -l
// on macOS, Linux, or Windows, but which don't have any mapping
// in Node.js. No sense trying if they're just going to throw
// every time on every platform.
//
// 'SIGEMT',
// 'SIGLOST',
// 'SIGPOLL',
// 'SIGRTMAX',
// 'SIGRTMAX-1',
// 'SIGRTMAX-10',
// 'SIGRTMAX-11',
// 'SIGRTMAX-12',
// 'SIGRTMAX-13',
// 'SIGRTMAX-14',
// 'SIGRTMAX-15',
// 'SIGRTMAX-2',
// 'SIGRTMAX-3',
// 'SIGRTMAX-4',
// 'SIGRTMAX-5',
// 'SIGRTMAX-6',
// 'SIGRTMAX-7',
// 'SIGRTMAX-8',
// 'SIGRTMAX-9',
// 'SIGRTMIN',
// 'SIGRTMIN+1',
// 'SIGRTMIN+10',
// 'SIGRTMIN+11',
// 'SIGRTMIN+12',
// 'SIGRTMIN+13',
// 'SIGRTMIN+14',
// 'SIGRTMIN+15',
// 'SIGRTMIN+16',
// 'SIGRTMIN+2',
// 'SIGRTMIN+3',
// 'SIGRTMIN+4',
// 'SIGRTMIN+5',
// 'SIGRTMIN+6',
// 'SIGRTMIN+7',
// 'SIGRTMIN+8',
// 'SIGRTMIN+9',
// 'SIGSTKFLT',
// 'SIGUNUSED',
//# sourceMappingURL=all-signals.js.map