'use strict';

const Benchmark = require('benchmark');
const suite = new Benchmark.Suite;
const testData = require('./test.json');


const stringifyPackages = {
  // 'JSON.stringify': JSON.stringify,
  'fast-json-stable-stringify': require('../index'),
  'json-stable-stringify': true,
  'fast-stable-stringify': true,
  'faster-stable-stringify': true
};


for (const name in stringifyPackages) {
  let func = stringifyPackages[name];
  if (func === true) func = require(name);

  suite.add(name, function() {
    func(testData);
  });
}

suite
  .on('cycle', (event) => console.log(String(event.target)))
  .on('complete', function () {
    console.log('The fastest is ' + this.filter('fastest').map('name'));
  })
  .run({async: true});
