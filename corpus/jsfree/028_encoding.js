/**
 * negotiator
 * Copyright(c) 2012 Isaac Z. Schlueter
 * Copyright(c) 2014 Federico Romero
 * Copyright(c) 2014-2015 Douglas Christopher Wilson
 * MIT Licensed
 */

'use strict';

/**
 * Module exports.
 * @public
 */

module.exports = preferredEncodings;
module.exports.preferredEncodings = preferredEncodings;

/**
 * Module variables.
 * @private
 */

var simpleEncodingRegExp = /^\s*([^\s;]+)\s*(?:;(.*))?$/;

/**
 * Parse the Accept-Encoding header.
 * @private
 */

function parseAcceptEncoding(accept) {
  var accepts = accept.split(',');
  var hasIdentity = false;
  var minQuality = 1;

  for (var i = 0, j = 0; i < accepts.length; i++) {
    var encoding = parseEncoding(accepts[i].trim(), i);

    if (encoding) {
      accepts[j++] = encoding;
      hasIdentity = hasIdentity || specify('identity', encoding);
      minQuality = Math.min(minQuality, encoding.q || 1);
    }
  }

  if (!hasIdentity) {
    /*
     * If identity doesn't explicitly appear in the accept-encoding header,
     * it's added to the list of acceptable encoding with the lowest q
     */
    accepts[j++] = {
      encoding: 'identity',
      q: minQuality,
      i: i
    };
  }

  // trim accepts
  accepts.length = j;

  return accepts;
}

/**
 * Parse an encoding from the Accept-Encoding header.
 * @private
 */

function parseEncoding(str, i) {
  var match = simpleEncodingRegExp.exec(str);
  if (!match) return null;

  var encoding = match[1];
  var q = 1;
  if (match[2]) {
    var params = match[2].split(';');
    for (var j = 0; j < params.length; j++) {
      var p = params[j].trim().split('=');
      if (p[0] === 'q') {
        q = parseFloat(p[1]);
        break;
      }
    }
  }

  return {
    encoding: encoding,
    q: q,
    i: i
  };
}

/**
 * Get the priority of an encoding.
 * @private
 */

function getEncodingPriority(encoding, accepted, index) {
  var priority = {encoding: encoding, o: -1, q: 0, s: 0};

  for (var i = 0; i < accepted.length; i++) {
    var spec = specify(encoding, accepted[i], index);

    if (spec && (priority.s - spec.s || priority.q - spec.q || priority.o - spec.o) < 0) {
      priority = spec;
    }
  }

  return priority;
}

/**
 * Get the specificity of the encoding.
 * @private
 */

function specify(encoding, spec, index) {
  var s = 0;
  if(spec.encoding.toLowerCase() === encoding.toLowerCase()){
    s |= 1;
  } else if (spec.encoding !== '*' ) {
    return null
  }

  return {
    encoding: encoding,
    i: index,
    o: spec.i,
    q: spec.q,
    s: s
  }
};

/**
 * Get the preferred encodings from an Accept-Encoding header.
 * @public
 */

function preferredEncodings(accept, provided, preferred) {
  var accepts = parseAcceptEncoding(accept || '');

  var comparator = preferred ? function comparator (a, b) {
    if (a.q !== b.q) {
      return b.q - a.q // higher quality first
    }

    var aPreferred = preferred.indexOf(a.encoding)
    var bPreferred = preferred.indexOf(b.encoding)

    if (aPreferred === -1 && bPreferred === -1) {
      // consider the original specifity/order
      return (b.s - a.s) || (a.o - b.o) || (a.i - b.i)
    }

    if (aPreferred !== -1 && bPreferred !== -1) {
      return aPreferred - bPreferred // consider the preferred order
    }

    return aPreferred === -1 ? 1 : -1 // preferred first
  } : compareSpecs;

  if (!provided) {
    // sorted list of all encodings
    return accepts
      .filter(isQuality)
      .sort(comparator)
      .map(getFullEncoding);
  }

  var priorities = provided.map(function getPriority(type, index) {
    return getEncodingPriority(type, accepts, index);
  });

  // sorted list of accepted encodings
  return priorities.filter(isQuality).sort(comparator).map(function getEncoding(priority) {
    return provided[priorities.indexOf(priority)];
  });
}

/**
 * Compare two specs.
 * @private
 */

function compareSpecs(a, b) {
  return (b.q - a.q) || (b.s - a.s) || (a.o - b.o) || (a.i - b.i);
}

/**
 * Get full encoding string.
 * @private
 */

function getFullEncoding(spec) {
  return spec.encoding;
}

/**
 * Check if a spec has any quality.
 * @private
 */

function isQuality(spec) {
  return spec.q > 0;
}
