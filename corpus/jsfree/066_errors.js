'use strict'

class ErrInvalidAuth extends Error {
  constructor (problems) {
    let message = 'Invalid auth configuration found: '
    message += problems.map((problem) => {
      // istanbul ignore else
      if (problem.action === 'delete') {
        return `\`${problem.key}\` is not allowed in ${problem.where} config`
      } else if (problem.action === 'rename') {
        return `\`${problem.from}\` must be renamed to \`${problem.to}\` in ${problem.where} config`
      }
    }).join(', ')
    message += '\nPlease run `npm config fix` to repair your configuration.`'
    super(message)
    this.code = 'ERR_INVALID_AUTH'
    this.problems = problems
  }
}

module.exports = {
  ErrInvalidAuth,
}
