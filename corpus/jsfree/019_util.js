"use strict";
Object.defineProperty(exports, "__esModule", { value: true });
exports.checkVisibility = void 0;
exports.pierce = pierce;
exports.pierceAll = pierceAll;
/**
 * @license
 * Copyright 2024 Google Inc.
 * SPDX-License-Identifier: Apache-2.0
 */
const HIDDEN_VISIBILITY_VALUES = ['hidden', 'collapse'];
/**
 * @internal
 */
const checkVisibility = (node, visible) => {
    if (!node) {
        return visible === false;
    }
    if (visible === undefined) {
        return node;
    }
    const element = (node.nodeType === Node.TEXT_NODE ? node.parentElement : node);
    const style = window.getComputedStyle(element);
    const isVisible = style &&
        !HIDDEN_VISIBILITY_VALUES.includes(style.visibility) &&
        !isBoundingBoxEmpty(element);
    return visible === isVisible ? node : false;
};
exports.checkVisibility = checkVisibility;
function isBoundingBoxEmpty(element) {
    const rect = element.getBoundingClientRect();
    return rect.width === 0 || rect.height === 0;
}
const hasShadowRoot = (node) => {
    return 'shadowRoot' in node && node.shadowRoot instanceof ShadowRoot;
};
/**
 * @internal
 */
function* pierce(root) {
    if (hasShadowRoot(root)) {
        yield root.shadowRoot;
    }
    else {
        yield root;
    }
}
/**
 * @internal
 */
function* pierceAll(root) {
    root = pierce(root).next().value;
    yield root;
    const walkers = [document.createTreeWalker(root, NodeFilter.SHOW_ELEMENT)];
    for (const walker of walkers) {
        let node;
        while ((node = walker.nextNode())) {
            if (!node.shadowRoot) {
                continue;
            }
            yield node.shadowRoot;
            walkers.push(document.createTreeWalker(node.shadowRoot, NodeFilter.SHOW_ELEMENT));
        }
    }
}
//# sourceMappingURL=util.js.map