'use strict';

const BINARY_TYPES = ['nodebuffer', 'arraybuffer', 'fragments'];
const hasBlob = typeof Blob !== 'undefined';

if (hasBlob) BINARY_TYPES.push('blob');

module.exports = {
  BINARY_TYPES,
  CLOSE_TIMEOUT: 30000,
  EMPTY_BUFFER: Buffer.alloc(0),
  GUID: '258EAFA5-E914-47DA-95CA-C5AB0DC85B11',
  hasBlob,
  kForOnEventAttribute: Symbol('kIsForOnEventAttribute'),
  kListener: Symbol('kListener'),
  kStatusCode: Symbol('status-code'),
  kWebSocket: Symbol('websocket'),
  NOOP: () => {}
};
