"use strict";
var __createBinding = (this && this.__createBinding) || (Object.create ? (function(o, m, k, k2) {
    if (k2 === undefined) k2 = k;
    var desc = Object.getOwnPropertyDescriptor(m, k);
    if (!desc || ("get" in desc ? !m.__esModule : desc.writable || desc.configurable)) {
      desc = { enumerable: true, get: function() { return m[k]; } };
    }
    Object.defineProperty(o, k2, desc);
}) : (function(o, m, k, k2) {
    if (k2 === undefined) k2 = k;
    o[k2] = m[k];
}));
var __setModuleDefault = (this && this.__setModuleDefault) || (Object.create ? (function(o, v) {
    Object.defineProperty(o, "default", { enumerable: true, value: v });
}) : function(o, v) {
    o["default"] = v;
});
var __importStar = (this && this.__importStar) || function (mod) {
    if (mod && mod.__esModule) return mod;
    var result = {};
    if (mod != null) for (var k in mod) if (k !== "default" && Object.prototype.hasOwnProperty.call(mod, k)) __createBinding(result, mod, k);
    __setModuleDefault(result, mod);
    return result;
};
Object.defineProperty(exports, "__esModule", { value: true });
exports.ADDRESS_BOUNDARY = void 0;
exports.groupPossibilities = groupPossibilities;
exports.padGroup = padGroup;
exports.simpleRegularExpression = simpleRegularExpression;
exports.possibleElisions = possibleElisions;
const v6 = __importStar(require("./constants"));
function groupPossibilities(possibilities) {
    return `(${possibilities.join('|')})`;
}
function padGroup(group) {
    if (group.length < 4) {
        return `0{0,${4 - group.length}}${group}`;
    }
    return group;
}
exports.ADDRESS_BOUNDARY = '[^A-Fa-f0-9:]';
function simpleRegularExpression(groups) {
    const zeroIndexes = [];
    groups.forEach((group, i) => {
        const groupInteger = parseInt(group, 16);
        if (groupInteger === 0) {
            zeroIndexes.push(i);
        }
    });
    // You can technically elide a single 0, this creates the regular expressions
    // to match that eventuality
    const possibilities = zeroIndexes.map((zeroIndex) => groups
        .map((group, i) => {
        if (i === zeroIndex) {
            const elision = i === 0 || i === v6.GROUPS - 1 ? ':' : '';
            return groupPossibilities([padGroup(group), elision]);
        }
        return padGroup(group);
    })
        .join(':'));
    // The simplest case
    possibilities.push(groups.map(padGroup).join(':'));
    return groupPossibilities(possibilities);
}
function possibleElisions(elidedGroups, moreLeft, moreRight) {
    const left = moreLeft ? '' : ':';
    const right = moreRight ? '' : ':';
    const possibilities = [];
    // 1. elision of everything (::)
    if (!moreLeft && !moreRight) {
        possibilities.push('::');
    }
    // 2. complete elision of the middle
    if (moreLeft && moreRight) {
        possibilities.push('');
    }
    if ((moreRight && !moreLeft) || (!moreRight && moreLeft)) {
        // 3. complete elision of one side
        possibilities.push(':');
    }
    // 4. elision from the left side
    possibilities.push(`${left}(:0{1,4}){1,${elidedGroups - 1}}`);
    // 5. elision from the right side
    possibilities.push(`(0{1,4}:){1,${elidedGroups - 1}}${right}`);
    // 6. no elision
    possibilities.push(`(0{1,4}:){${elidedGroups - 1}}0{1,4}`);
    // 7. elision (including sloppy elision) from the middle
    for (let groups = 1; groups < elidedGroups - 1; groups++) {
        for (let position = 1; position < elidedGroups - groups; position++) {
            possibilities.push(`(0{1,4}:){${position}}:(0{1,4}:){${elidedGroups - position - groups - 1}}0{1,4}`);
        }
    }
    return groupPossibilities(possibilities);
}
//# sourceMappingURL=regular-expressions.js.map