/**
 * @license
 * Copyright 2024 Google Inc.
 * SPDX-License-Identifier: Apache-2.0
 */
import { WebWorker } from '../api/WebWorker.js';
import { UnsupportedOperation } from '../common/Errors.js';
import { BidiWorkerRealm } from './Realm.js';
/**
 * @internal
 */
export class BidiWebWorker extends WebWorker {
    static from(frame, realm) {
        const worker = new BidiWebWorker(frame, realm);
        return worker;
    }
    #frame;
    #realm;
    constructor(frame, realm) {
        super(realm.origin);
        this.#frame = frame;
        this.#realm = BidiWorkerRealm.from(realm, this);
    }
    get frame() {
        return this.#frame;
    }
    mainRealm() {
        return this.#realm;
    }
    get client() {
        throw new UnsupportedOperation();
    }
}
//# sourceMappingURL=WebWorker.js.map