/*istanbul ignore start*/
"use strict";

Object.defineProperty(exports, "__esModule", {
  value: true
});
exports.arrayEqual = arrayEqual;
exports.arrayStartsWith = arrayStartsWith;

/*istanbul ignore end*/
function arrayEqual(a, b) {
  if (a.length !== b.length) {
    return false;
  }

  return arrayStartsWith(a, b);
}

function arrayStartsWith(array, start) {
  if (start.length > array.length) {
    return false;
  }

  for (var i = 0; i < start.length; i++) {
    if (start[i] !== array[i]) {
      return false;
    }
  }

  return true;
}
//# sourceMappingURL=data:application/json;charset=utf-8;base64,eyJ2ZXJzaW9uIjozLCJzb3VyY2VzIjpbIi4uLy4uL3NyYy91dGlsL2FycmF5LmpzIl0sIm5hbWVzIjpbImFycmF5RXF1YWwiLCJhIiwiYiIsImxlbmd0aCIsImFycmF5U3RhcnRzV2l0aCIsImFycmF5Iiwic3RhcnQiLCJpIl0sIm1hcHBpbmdzIjoiOzs7Ozs7Ozs7O0FBQU8sU0FBU0EsVUFBVCxDQUFvQkMsQ0FBcEIsRUFBdUJDLENBQXZCLEVBQTBCO0FBQy9CLE1BQUlELENBQUMsQ0FBQ0UsTUFBRixLQUFhRCxDQUFDLENBQUNDLE1BQW5CLEVBQTJCO0FBQ3pCLFdBQU8sS0FBUDtBQUNEOztBQUVELFNBQU9DLGVBQWUsQ0FBQ0gsQ0FBRCxFQUFJQyxDQUFKLENBQXRCO0FBQ0Q7O0FBRU0sU0FBU0UsZUFBVCxDQUF5QkMsS0FBekIsRUFBZ0NDLEtBQWhDLEVBQXVDO0FBQzVDLE1BQUlBLEtBQUssQ0FBQ0gsTUFBTixHQUFlRSxLQUFLLENBQUNGLE1BQXpCLEVBQWlDO0FBQy9CLFdBQU8sS0FBUDtBQUNEOztBQUVELE9BQUssSUFBSUksQ0FBQyxHQUFHLENBQWIsRUFBZ0JBLENBQUMsR0FBR0QsS0FBSyxDQUFDSCxNQUExQixFQUFrQ0ksQ0FBQyxFQUFuQyxFQUF1QztBQUNyQyxRQUFJRCxLQUFLLENBQUNDLENBQUQsQ0FBTCxLQUFhRixLQUFLLENBQUNFLENBQUQsQ0FBdEIsRUFBMkI7QUFDekIsYUFBTyxLQUFQO0FBQ0Q7QUFDRjs7QUFFRCxTQUFPLElBQVA7QUFDRCIsInNvdXJjZXNDb250ZW50IjpbImV4cG9ydCBmdW5jdGlvbiBhcnJheUVxdWFsKGEsIGIpIHtcbiAgaWYgKGEubGVuZ3RoICE9PSBiLmxlbmd0aCkge1xuICAgIHJldHVybiBmYWxzZTtcbiAgfVxuXG4gIHJldHVybiBhcnJheVN0YXJ0c1dpdGgoYSwgYik7XG59XG5cbmV4cG9ydCBmdW5jdGlvbiBhcnJheVN0YXJ0c1dpdGgoYXJyYXksIHN0YXJ0KSB7XG4gIGlmIChzdGFydC5sZW5ndGggPiBhcnJheS5sZW5ndGgpIHtcbiAgICByZXR1cm4gZmFsc2U7XG4gIH1cblxuICBmb3IgKGxldCBpID0gMDsgaSA8IHN0YXJ0Lmxlbmd0aDsgaSsrKSB7XG4gICAgaWYgKHN0YXJ0W2ldICE9PSBhcnJheVtpXSkge1xuICAgICAgcmV0dXJuIGZhbHNlO1xuICAgIH1cbiAgfVxuXG4gIHJldHVybiB0cnVlO1xufVxuIl19
