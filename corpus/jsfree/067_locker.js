var crypto = require('crypto')
var resolve = require('path').resolve

var lockfile = require('lockfile')
var log = require('npmlog')

var npm = require('../npm.js')
var correctMkdir = require('../utils/correct-mkdir.js')

var installLocks = {}

function lockFileName (base, name) {
  var c = name.replace(/[^a-zA-Z0-9]+/g, '-').replace(/^-+|-+$/g, '')
  var p = resolve(base, name)
  var h = crypto.createHash('sha1').update(p).digest('hex')
  var l = resolve(npm.cache, '_locks')

  return resolve(l, c.substr(0, 24) + '-' + h.substr(0, 16) + '.lock')
}

function lock (base, name, cb) {
  var lockDir = resolve(npm.cache, '_locks')
  correctMkdir(lockDir, function (er) {
    if (er) return cb(er)

    var opts = {
      stale: npm.config.get('cache-lock-stale'),
      retries: npm.config.get('cache-lock-retries'),
      wait: npm.config.get('cache-lock-wait')
    }
    var lf = lockFileName(base, name)
    lockfile.lock(lf, opts, function (er) {
      if (er) log.warn('locking', lf, 'failed', er)

      if (!er) {
        log.verbose('lock', 'using', lf, 'for', resolve(base, name))
        installLocks[lf] = true
      }

      cb(er)
    })
  })
}

function unlock (base, name, cb) {
  var lf = lockFileName(base, name)
  var locked = installLocks[lf]
  if (locked === false) {
    return process.nextTick(cb)
  } else if (locked === true) {
    lockfile.unlock(lf, function (er) {
      if (er) {
        log.warn('unlocking', lf, 'failed', er)
      } else {
        installLocks[lf] = false
        log.verbose('unlock', 'done using', lf, 'for', resolve(base, name))
      }

      cb(er)
    })
  } else {
    var notLocked = new Error(
      'Attempt to unlock ' + resolve(base, name) + ", which hasn't been locked"
    )
    notLocked.code = 'ENOTLOCKED'
    throw notLocked
  }
}

module.exports = {
  lock: lock,
  unlock: unlock
}
