'use strict';
const pump = require('pump');
const bufferStream = require('./buffer-stream');

class MaxBufferError extends Error {
	constructor() {
		super('maxBuffer exceeded');
		this.name = 'MaxBufferError';
	}
}

function getStream(inputStream, options) {
	if (!inputStream) {
		return Promise.reject(new Error('Expected a stream'));
	}

	options = Object.assign({maxBuffer: Infinity}, options);

	const {maxBuffer} = options;

	let stream;
	return new Promise((resolve, reject) => {
		const rejectPromise = error => {
			if (error) { // A null check
				error.bufferedData = stream.getBufferedValue();
			}
			reject(error);
		};

		stream = pump(inputStream, bufferStream(options), error => {
			if (error) {
				rejectPromise(error);
				return;
			}

			resolve();
		});

		stream.on('data', () => {
			if (stream.getBufferedLength() > maxBuffer) {
				rejectPromise(new MaxBufferError());
			}
		});
	}).then(() => stream.getBufferedValue());
}

module.exports = getStream;
module.exports.buffer = (stream, options) => getStream(stream, Object.assign({}, options, {encoding: 'buffer'}));
module.exports.array = (stream, options) => getStream(stream, Object.assign({}, options, {array: true}));
module.exports.MaxBufferError = MaxBufferError;
