'use strict'

const path = require('path')
const log = require('npmlog')

function findNodeDirectory (scriptLocation, processObj) {
  // set dirname and process if not passed in
  // this facilitates regression tests
  if (scriptLocation === undefined) {
    scriptLocation = __dirname
  }
  if (processObj === undefined) {
    processObj = process
  }

  // Have a look to see what is above us, to try and work out where we are
  var npmParentDirectory = path.join(scriptLocation, '../../../..')
  log.verbose('node-gyp root', 'npm_parent_directory is ' +
              path.basename(npmParentDirectory))
  var nodeRootDir = ''

  log.verbose('node-gyp root', 'Finding node root directory')
  if (path.basename(npmParentDirectory) === 'deps') {
    // We are in a build directory where this script lives in
    // deps/npm/node_modules/node-gyp/lib
    nodeRootDir = path.join(npmParentDirectory, '..')
    log.verbose('node-gyp root', 'in build directory, root = ' +
                nodeRootDir)
  } else if (path.basename(npmParentDirectory) === 'node_modules') {
    // We are in a node install directory where this script lives in
    // lib/node_modules/npm/node_modules/node-gyp/lib or
    // node_modules/npm/node_modules/node-gyp/lib depending on the
    // platform
    if (processObj.platform === 'win32') {
      nodeRootDir = path.join(npmParentDirectory, '..')
    } else {
      nodeRootDir = path.join(npmParentDirectory, '../..')
    }
    log.verbose('node-gyp root', 'in install directory, root = ' +
                nodeRootDir)
  } else {
    // We don't know where we are, try working it out from the location
    // of the node binary
    var nodeDir = path.dirname(processObj.execPath)
    var directoryUp = path.basename(nodeDir)
    if (directoryUp === 'bin') {
      nodeRootDir = path.join(nodeDir, '..')
    } else if (directoryUp === 'Release' || directoryUp === 'Debug') {
      // If we are a recently built node, and the directory structure
      // is that of a repository. If we are on Windows then we only need
      // to go one level up, everything else, two
      if (processObj.platform === 'win32') {
        nodeRootDir = path.join(nodeDir, '..')
      } else {
        nodeRootDir = path.join(nodeDir, '../..')
      }
    }
    // Else return the default blank, "".
  }
  return nodeRootDir
}

module.exports = findNodeDirectory
