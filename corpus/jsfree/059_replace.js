// tar -r
import { WriteStream, WriteStreamSync } from '@isaacs/fs-minipass';
import fs from 'node:fs';
import path from 'node:path';
import { Header } from './header.js';
import { list } from './list.js';
import { makeCommand } from './make-command.js';
import { isFile, } from './options.js';
import { Pack, PackSync } from './pack.js';
// starting at the head of the file, read a Header
// If the checksum is invalid, that's our position to start writing
// If it is, jump forward by the specified size (round up to 512)
// and try again.
// Write the new Pack stream starting there.
const replaceSync = (opt, files) => {
    const p = new PackSync(opt);
    let threw = true;
    let fd;
    let position;
    try {
        try {
            fd = fs.openSync(opt.file, 'r+');
        }
        catch (er) {
            if (er?.code === 'ENOENT') {
                fd = fs.openSync(opt.file, 'w+');
            }
            else {
                throw er;
            }
        }
        const st = fs.fstatSync(fd);
        const headBuf = Buffer.alloc(512);
        POSITION: for (position = 0; position < st.size; position += 512) {
            for (let bufPos = 0, bytes = 0; bufPos < 512; bufPos += bytes) {
                bytes = fs.readSync(fd, headBuf, bufPos, headBuf.length - bufPos, position + bufPos);
                if (position === 0 &&
                    headBuf[0] === 0x1f &&
                    headBuf[1] === 0x8b) {
                    throw new Error('cannot append to compressed archives');
                }
                if (!bytes) {
                    break POSITION;
                }
            }
            const h = new Header(headBuf);
            if (!h.cksumValid) {
                break;
            }
            const entryBlockSize = 512 * Math.ceil((h.size || 0) / 512);
            if (position + entryBlockSize + 512 > st.size) {
                break;
            }
            // the 512 for the header we just parsed will be added as well
            // also jump ahead all the blocks for the body
            position += entryBlockSize;
            if (opt.mtimeCache && h.mtime) {
                opt.mtimeCache.set(String(h.path), h.mtime);
            }
        }
        threw = false;
        streamSync(opt, p, position, fd, files);
    }
    finally {
        if (threw) {
            try {
                fs.closeSync(fd);
            }
            catch (er) { }
        }
    }
};
const streamSync = (opt, p, position, fd, files) => {
    const stream = new WriteStreamSync(opt.file, {
        fd: fd,
        start: position,
    });
    p.pipe(stream);
    addFilesSync(p, files);
};
const replaceAsync = (opt, files) => {
    files = Array.from(files);
    const p = new Pack(opt);
    const getPos = (fd, size, cb_) => {
        const cb = (er, pos) => {
            if (er) {
                fs.close(fd, _ => cb_(er));
            }
            else {
                cb_(null, pos);
            }
        };
        let position = 0;
        if (size === 0) {
            return cb(null, 0);
        }
        let bufPos = 0;
        const headBuf = Buffer.alloc(512);
        const onread = (er, bytes) => {
            if (er || typeof bytes === 'undefined') {
                return cb(er);
            }
            bufPos += bytes;
            if (bufPos < 512 && bytes) {
                return fs.read(fd, headBuf, bufPos, headBuf.length - bufPos, position + bufPos, onread);
            }
            if (position === 0 &&
                headBuf[0] === 0x1f &&
                headBuf[1] === 0x8b) {
                return cb(new Error('cannot append to compressed archives'));
            }
            // truncated header
            if (bufPos < 512) {
                return cb(null, position);
            }
            const h = new Header(headBuf);
            if (!h.cksumValid) {
                return cb(null, position);
            }
            /* c8 ignore next */
            const entryBlockSize = 512 * Math.ceil((h.size ?? 0) / 512);
            if (position + entryBlockSize + 512 > size) {
                return cb(null, position);
            }
            position += entryBlockSize + 512;
            if (position >= size) {
                return cb(null, position);
            }
            if (opt.mtimeCache && h.mtime) {
                opt.mtimeCache.set(String(h.path), h.mtime);
            }
            bufPos = 0;
            fs.read(fd, headBuf, 0, 512, position, onread);
        };
        fs.read(fd, headBuf, 0, 512, position, onread);
    };
    const promise = new Promise((resolve, reject) => {
        p.on('error', reject);
        let flag = 'r+';
        const onopen = (er, fd) => {
            if (er && er.code === 'ENOENT' && flag === 'r+') {
                flag = 'w+';
                return fs.open(opt.file, flag, onopen);
            }
            if (er || !fd) {
                return reject(er);
            }
            fs.fstat(fd, (er, st) => {
                if (er) {
                    return fs.close(fd, () => reject(er));
                }
                getPos(fd, st.size, (er, position) => {
                    if (er) {
                        return reject(er);
                    }
                    const stream = new WriteStream(opt.file, {
                        fd: fd,
                        start: position,
                    });
                    p.pipe(stream);
                    stream.on('error', reject);
                    stream.on('close', resolve);
                    addFilesAsync(p, files);
                });
            });
        };
        fs.open(opt.file, flag, onopen);
    });
    return promise;
};
const addFilesSync = (p, files) => {
    files.forEach(file => {
        if (file.charAt(0) === '@') {
            list({
                file: path.resolve(p.cwd, file.slice(1)),
                sync: true,
                noResume: true,
                onReadEntry: entry => p.add(entry),
            });
        }
        else {
            p.add(file);
        }
    });
    p.end();
};
const addFilesAsync = async (p, files) => {
    for (let i = 0; i < files.length; i++) {
        const file = String(files[i]);
        if (file.charAt(0) === '@') {
            await list({
                file: path.resolve(String(p.cwd), file.slice(1)),
                noResume: true,
                onReadEntry: entry => p.add(entry),
            });
        }
        else {
            p.add(file);
        }
    }
    p.end();
};
export const replace = makeCommand(replaceSync, replaceAsync,
/* c8 ignore start */
() => {
    throw new TypeError('file is required');
}, () => {
    throw new TypeError('file is required');
},
/* c8 ignore stop */
(opt, entries) => {
    if (!isFile(opt)) {
        throw new TypeError('file is required');
    }
    if (opt.gzip ||
        opt.brotli ||
        opt.zstd ||
        opt.file.endsWith('.br') ||
        opt.file.endsWith('.tbr')) {
        throw new TypeError('cannot append to compressed archives');
    }
    if (!entries?.length) {
        throw new TypeError('no paths specified to add/replace');
    }
});
//# sourceMappingURL=replace.js.map