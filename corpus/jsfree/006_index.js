'use strict';
const stripAnsi = require('strip-ansi');
const isFullwidthCodePoint = require('is-fullwidth-code-point');
const emojiRegex = require('emoji-regex');

const stringWidth = string => {
	if (typeof string !== 'string' || string.length === 0) {
		return 0;
	}

	string = stripAnsi(string);

	if (string.length === 0) {
		return 0;
	}

	string = string.replace(emojiRegex(), '  ');

	let width = 0;

	for (let i = 0; i < string.length; i++) {
		const code = string.codePointAt(i);

		// Ignore control characters
		if (code <= 0x1F || (code >= 0x7F && code <= 0x9F)) {
			continue;
		}

		// Ignore combining characters
		if (code >= 0x300 && code <= 0x36F) {
			continue;
		}

		// Surrogates
		if (code > 0xFFFF) {
			i++;
		}

		width += isFullwidthCodePoint(code) ? 2 : 1;
	}

	return width;
};

module.exports = stringWidth;
// TODO: remove this in the next major version
module.exports.default = stringWidth;
