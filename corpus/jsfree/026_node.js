/**
 * Module dependencies.
 */

const tty = require('tty');
const util = require('util');

/**
 * This is the Node.js implementation of `debug()`.
 */

exports.init = init;
exports.log = log;
exports.formatArgs = formatArgs;
exports.save = save;
exports.load = load;
exports.useColors = useColors;
exports.destroy = util.deprecate(
	() => {},
	'Instance method `debug.destroy()` is deprecated and no longer does anything. It will be removed in the next major version of `debug`.'
);

/**
 * Colors.
 */

exports.colors = [6, 2, 3, 4, 5, 1];

try {
	// Optional dependency (as in, doesn't need to be installed, NOT like optionalDependencies in package.json)
	// eslint-disable-next-line import/no-extraneous-dependencies
	const supportsColor = require('supports-color');

	if (supportsColor && (supportsColor.stderr || supportsColor).level >= 2) {
		exports.colors = [
			20,
			21,
			26,
			27,
			32,
			33,
			38,
			39,
			40,
			41,
			42,
			43,
			44,
			45,
			56,
			57,
			62,
			63,
			68,
			69,
			74,
			75,
			76,
			77,
			78,
			79,
			80,
			81,
			92,
			93,
			98,
			99,
			112,
			113,
			128,
			129,
			134,
			135,
			148,
			149,
			160,
			161,
			162,
			163,
			164,
			165,
			166,
			167,
			168,
			169,
			170,
			171,
			172,
			173,
			178,
			179,
			184,
			185,
			196,
			197,
			198,
			199,
			200,
			201,
			202,
			203,
			204,
			205,
			206,
			207,
			208,
			209,
			214,
			215,
			220,
			221
		];
	}
} catch (error) {
	// Swallow - we only care if `supports-color` is available; it doesn't have to be.
}

/**
 * Build up the default `inspectOpts` object from the environment variables.
 *
 *   $ DEBUG_COLORS=no DEBUG_DEPTH=10 DEBUG_SHOW_HIDDEN=enabled node script.js
 */

exports.inspectOpts = Object.keys(process.env).filter(key => {
	return /^debug_/i.test(key);
}).reduce((obj, key) => {
	// Camel-case
	const prop = key
		.substring(6)
		.toLowerCase()
		.replace(/_([a-z])/g, (_, k) => {
			return k.toUpperCase();
		});

	// Coerce string value into JS value
	let val = process.env[key];
	if (/^(yes|on|true|enabled)$/i.test(val)) {
		val = true;
	} else if (/^(no|off|false|disabled)$/i.test(val)) {
		val = false;
	} else if (val === 'null') {
		val = null;
	} else {
		val = Number(val);
	}

	obj[prop] = val;
	return obj;
}, {});

/**
 * Is stdout a TTY? Colored output is enabled when `true`.
 */

function useColors() {
	return 'colors' in exports.inspectOpts ?
		Boolean(exports.inspectOpts.colors) :
		tty.isatty(process.stderr.fd);
}

/**
 * Adds ANSI color escape codes if enabled.
 *
 * @api public
 */

function formatArgs(args) {
	const {namespace: name, useColors} = this;

	if (useColors) {
		const c = this.color;
		const colorCode = '\u001B[3' + (c < 8 ? c : '8;5;' + c);
		const prefix = `  ${colorCode};1m${name} \u001B[0m`;

		args[0] = prefix + args[0].split('\n').join('\n' + prefix);
		args.push(colorCode + 'm+' + module.exports.humanize(this.diff) + '\u001B[0m');
	} else {
		args[0] = getDate() + name + ' ' + args[0];
	}
}

function getDate() {
	if (exports.inspectOpts.hideDate) {
		return '';
	}
	return new Date().toISOString() + ' ';
}

/**
 * Invokes `util.formatWithOptions()` with the specified arguments and writes to stderr.
 */

function log(...args) {
	return process.stderr.write(util.formatWithOptions(exports.inspectOpts, ...args) + '\n');
}

/**
 * Save `namespaces`.
 *
 * @param {String} namespaces
 * @api private
 */
function save(namespaces) {
	if (namespaces) {
		process.env.DEBUG = namespaces;
	} else {
		// If you set a process.env field to null or undefined, it gets cast to the
		// string 'null' or 'undefined'. Just delete instead.
		delete process.env.DEBUG;
	}
}

/**
 * Load `namespaces`.
 *
 * @return {String} returns the previously persisted debug modes
 * @api private
 */

function load() {
	return process.env.DEBUG;
}

/**
 * Init logic for `debug` instances.
 *
 * Create a new `inspectOpts` object in case `useColors` is set
 * differently for a particular `debug` instance.
 */

function init(debug) {
	debug.inspectOpts = {};

	const keys = Object.keys(exports.inspectOpts);
	for (let i = 0; i < keys.length; i++) {
		debug.inspectOpts[keys[i]] = exports.inspectOpts[keys[i]];
	}
}

module.exports = require('./common')(exports);

const {formatters} = module.exports;

/**
 * Map %o to `util.inspect()`, all on a single line.
 */

formatters.o = function (v) {
	this.inspectOpts.colors = this.useColors;
	return util.inspect(v, this.inspectOpts)
		.split('\n')
		.map(str => str.trim())
		.join(' ');
};

/**
 * Map %O to `util.inspect()`, allowing multiple lines if needed.
 */

formatters.O = function (v) {
	this.inspectOpts.colors = this.useColors;
	return util.inspect(v, this.inspectOpts);
};
