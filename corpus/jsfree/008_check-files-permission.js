var fs = require('fs')
var path = require('path')
var getUid = require('uid-number')
var chain = require('slide').chain
var log = require('npmlog')
var npm = require('../npm.js')
var fileCompletion = require('../utils/completion/file-completion.js')

function checkFilesPermission (root, fmask, dmask, cb) {
  if (process.platform === 'win32') return cb(null, true)
  getUid(npm.config.get('user'), npm.config.get('group'), function (e, uid, gid) {
    var tracker = log.newItem('checkFilePermissions', 1)
    if (e) {
      tracker.finish()
      tracker.warn('checkFilePermissions', 'Error looking up user and group:', e)
      return cb(e)
    }
    tracker.info('checkFilePermissions', 'Building file list of ' + root)
    fileCompletion(root, '.', Infinity, function (e, files) {
      if (e) {
        tracker.warn('checkFilePermissions', 'Error building file list:', e)
        tracker.finish()
        return cb(e)
      }
      tracker.addWork(files.length)
      tracker.completeWork(1)
      chain(files.map(andCheckFile), function (er) {
        tracker.finish()
        cb(null, !er)
      })
      function andCheckFile (f) {
        return [checkFile, f]
      }
      function checkFile (f, next) {
        var file = path.join(root, f)
        tracker.silly('checkFilePermissions', f)
        fs.lstat(file, function (e, stat) {
          tracker.completeWork(1)
          if (e) return next(e)
          if (!stat.isDirectory() && !stat.isFile()) return next()
          // 6 = fs.constants.R_OK | fs.constants.W_OK
          // constants aren't available on v4
          fs.access(file, stat.isFile() ? fmask : dmask, (err) => {
            if (err) {
              tracker.error('checkFilePermissions', `Missing permissions on ${file}`)
              return next(new Error('Missing permissions for ' + file))
            } else {
              return next()
            }
          })
        })
      }
    })
  })
}

module.exports = checkFilesPermission
