"use strict";
Object.defineProperty(exports, "__esModule", { value: true });
exports.verifyDSSETLogBody = void 0;
/*
Copyright 2023 The Sigstore Authors.

Licensed under the Apache License, Version 2.0 (the "License");
you may not use this file except in compliance with the License.
You may obtain a copy of the License at

    http://www.apache.org/licenses/LICENSE-2.0

Unless required by applicable law or agreed to in writing, software
distributed under the License is distributed on an "AS IS" BASIS,
WITHOUT WARRANTIES OR CONDITIONS OF ANY KIND, either express or implied.
See the License for the specific language governing permissions and
limitations under the License.
*/
const error_1 = require("../error");
// Compare the given intoto tlog entry to the given bundle
function verifyDSSETLogBody(tlogEntry, content) {
    switch (tlogEntry.apiVersion) {
        case '0.0.1':
            return verifyDSSE001TLogBody(tlogEntry, content);
        default:
            throw new error_1.VerificationError({
                code: 'TLOG_BODY_ERROR',
                message: `unsupported dsse version: ${tlogEntry.apiVersion}`,
            });
    }
}
exports.verifyDSSETLogBody = verifyDSSETLogBody;
// Compare the given dsse v0.0.1 tlog entry to the given DSSE envelope.
function verifyDSSE001TLogBody(tlogEntry, content) {
    // Ensure the bundle's DSSE only contains a single signature
    if (tlogEntry.spec.signatures?.length !== 1) {
        throw new error_1.VerificationError({
            code: 'TLOG_BODY_ERROR',
            message: 'signature count mismatch',
        });
    }
    const tlogSig = tlogEntry.spec.signatures[0].signature;
    // Ensure that the signature in the bundle's DSSE matches tlog entry
    if (!content.compareSignature(Buffer.from(tlogSig, 'base64')))
        throw new error_1.VerificationError({
            code: 'TLOG_BODY_ERROR',
            message: 'tlog entry signature mismatch',
        });
    // Ensure the digest of the bundle's DSSE payload matches the digest in the
    // tlog entry
    const tlogHash = tlogEntry.spec.payloadHash?.value || '';
    if (!content.compareDigest(Buffer.from(tlogHash, 'hex'))) {
        throw new error_1.VerificationError({
            code: 'TLOG_BODY_ERROR',
            message: 'DSSE payload hash mismatch',
        });
    }
}
