'use strict';
module.exports = function generate_pattern(it, $keyword, $ruleType) {
  var out = ' ';
  var $lvl = it.level;
  var $dataLvl = it.dataLevel;
  var $schema = it.schema[$keyword];
  var $schemaPath = it.schemaPath + it.util.getProperty($keyword);
  var $errSchemaPath = it.errSchemaPath + '/' + $keyword;
  var $breakOnError = !it.opts.allErrors;
  var $data = 'data' + ($dataLvl || '');
  var $isData = it.opts.$data && $schema && $schema.$data,
    $schemaValue;
  if ($isData) {
    out += ' var schema' + ($lvl) + ' = ' + (it.util.getData($schema.$data, $dataLvl, it.dataPathArr)) + '; ';
    $schemaValue = 'schema' + $lvl;
  } else {
    $schemaValue = $schema;
  }
  var $regexp = $isData ? '(new RegExp(' + $schemaValue + '))' : it.usePattern($schema);
  out += 'if ( ';
  if ($isData) {
    out += ' (' + ($schemaValue) + ' !== undefined && typeof ' + ($schemaValue) + ' != \'string\') || ';
  }
  out += ' !' + ($regexp) + '.test(' + ($data) + ') ) {   ';
  var $$outStack = $$outStack || [];
  $$outStack.push(out);
  out = ''; /* istanbul ignore else */
  if (it.createErrors !== false) {
    out += ' { keyword: \'' + ('pattern') + '\' , dataPath: (dataPath || \'\') + ' + (it.errorPath) + ' , schemaPath: ' + (it.util.toQuotedString($errSchemaPath)) + ' , params: { pattern:  ';
    if ($isData) {
      out += '' + ($schemaValue);
    } else {
      out += '' + (it.util.toQuotedString($schema));
    }
    out += '  } ';
    if (it.opts.messages !== false) {
      out += ' , message: \'should match pattern "';
      if ($isData) {
        out += '\' + ' + ($schemaValue) + ' + \'';
      } else {
        out += '' + (it.util.escapeQuotes($schema));
      }
      out += '"\' ';
    }
    if (it.opts.verbose) {
      out += ' , schema:  ';
      if ($isData) {
        out += 'validate.schema' + ($schemaPath);
      } else {
        out += '' + (it.util.toQuotedString($schema));
      }
      out += '         , parentSchema: validate.schema' + (it.schemaPath) + ' , data: ' + ($data) + ' ';
    }
    out += ' } ';
  } else {
    out += ' {} ';
  }
  var __err = out;
  out = $$outStack.pop();
  if (!it.compositeRule && $breakOnError) {
    /* istanbul ignore if */
    if (it.async) {
      out += ' throw new ValidationError([' + (__err) + ']); ';
    } else {
      out += ' validate.errors = [' + (__err) + ']; return false; ';
    }
  } else {
    out += ' var err = ' + (__err) + ';  if (vErrors === null) vErrors = [err]; else vErrors.push(err); errors++; ';
  }
  out += '} ';
  if ($breakOnError) {
    out += ' else { ';
  }
  return out;
}
