const getBinFromManifest = (mani) => {
  // if we have a bin matching (unscoped portion of) packagename, use that
  // otherwise if there's 1 bin or all bin value is the same (alias), use
  // that, otherwise fail
  const bin = mani.bin || {}
  if (new Set(Object.values(bin)).size === 1) {
    return Object.keys(bin)[0]
  }

  // XXX probably a util to parse this better?
  const name = mani.name.replace(/^@[^/]+\//, '')
  if (bin[name]) {
    return name
  }

  // XXX need better error message
  throw Object.assign(new Error('could not determine executable to run'), {
    pkgid: mani._id,
  })
}

module.exports = getBinFromManifest
