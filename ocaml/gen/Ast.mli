open Ascii
open BinNums
open Json
open List
open Str
open String

type node =
| NScalar of jv
| NArr of node list
| NObj of node list
| Field of str * node
| Ident of str * coq_N * bool
| BIdent of str * coq_N * bool * node
| IdName of str
| Str of str * node
| Num of str * node
| Bool of bool
| Null
| Arr of node list
| Elem of bool * node
| Hole
| Obj of node list
| KV of node * node
| Computed of node
| Spread of node
| Call of bool * coq_N * node * node list * node
| Arrow of coq_N * node list * node * bool * bool * node * node
| Assign of str * node * node
| Paren of node
| Cond of node * node * node
| Bin of str * node * node
| Unary of str * node
| Member of node * node
| Block of coq_N * node list
| JsxE of node * node list * bool * node * node list * node
| JsxF of node list
| JAttr of node * node
| JNs of node * node
| JExprC of node
| JEmpty
| JText of str * str
| JSpreadChild of node

val nnull : node

val sq : string -> str -> bool

val dec0 : jv -> node

val fval : node -> node

val keys_ok : node list -> string list -> bool

val as_list : node -> node list option

val as_bool : node -> bool option

val as_str : node -> str option

val as_num : node -> str option

val as_N : node -> coq_N option

val is_null_or_true : node -> bool option

val classify_typed : str -> node list -> node option

val classify : node list -> node

val refine : node -> node

val dec : jv -> node

val jk : string -> jv -> str * jv

val jty : string -> str * jv

val jN : coq_N -> jv

val enc : node -> jv

val ntype : node -> str

val nget : string -> node list -> node option

val nfield : string -> node -> node option

val is_nnull : node -> bool
