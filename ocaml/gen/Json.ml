open Ascii
open BinNat
open BinNums
open Bool
open Datatypes
open Str
open String

type jv =
| JNull
| JBool of bool
| JNum of str
| JStr of str
| JArr of jv list
| JObj of (str * jv) list

(** val jv_eqb : jv -> jv -> bool **)

let rec jv_eqb a b =
  match a with
  | JNull -> (match b with
              | JNull -> true
              | _ -> false)
  | JBool x -> (match b with
                | JBool y -> eqb x y
                | _ -> false)
  | JNum x -> (match b with
               | JNum y -> str_eqb x y
               | _ -> false)
  | JStr x -> (match b with
               | JStr y -> str_eqb x y
               | _ -> false)
  | JArr x ->
    (match b with
     | JArr y ->
       let rec go x0 y0 =
         match x0 with
         | [] -> (match y0 with
                  | [] -> true
                  | _ :: _ -> false)
         | u :: x' ->
           (match y0 with
            | [] -> false
            | v :: y' -> (&&) (jv_eqb u v) (go x' y'))
       in go x y
     | _ -> false)
  | JObj x ->
    (match b with
     | JObj y ->
       let rec go x0 y0 =
         match x0 with
         | [] -> (match y0 with
                  | [] -> true
                  | _ :: _ -> false)
         | p :: x' ->
           let (k, u) = p in
           (match y0 with
            | [] -> false
            | p0 :: y' ->
              let (k', v) = p0 in
              (&&) ((&&) (str_eqb k k') (jv_eqb u v)) (go x' y'))
       in go x y
     | _ -> false)

(** val jget : str -> (str * jv) list -> jv option **)

let rec jget k = function
| [] -> None
| p :: r -> let (k', v) = p in if str_eqb k k' then Some v else jget k r

(** val jfield : str -> jv -> jv option **)

let jfield k = function
| JObj l -> jget k l
| _ -> None

(** val jstr : jv -> str option **)

let jstr = function
| JStr s -> Some s
| _ -> None

(** val jnat : jv -> coq_N option **)

let jnat = function
| JNum s -> coq_N_of_dec s
| _ -> None

(** val jarr : jv -> jv list **)

let jarr = function
| JArr l -> l
| _ -> []

(** val gen_base : coq_N **)

let gen_base =
  Npos (Coq_xO (Coq_xO (Coq_xO (Coq_xO (Coq_xO (Coq_xO (Coq_xI (Coq_xO
    (Coq_xO (Coq_xI (Coq_xO (Coq_xO (Coq_xO (Coq_xO (Coq_xI (Coq_xO (Coq_xI
    (Coq_xI (Coq_xI Coq_xH)))))))))))))))))))

(** val assoc_N : coq_N -> (coq_N * coq_N) list -> coq_N option **)

let rec assoc_N k = function
| [] -> None
| p :: r -> let (k', v) = p in if N.eqb k k' then Some v else assoc_N k r

(** val canon_ctx :
    coq_N -> (coq_N * coq_N) list -> coq_N * (coq_N * coq_N) list **)

let canon_ctx c m =
  if N.ltb c gen_base
  then (c, m)
  else (match assoc_N c m with
        | Some v -> (v, m)
        | None ->
          let v = N.add gen_base (N.of_nat (length m)) in
          (v, (app m ((c, v) :: []))))

(** val canon : jv -> (coq_N * coq_N) list -> jv * (coq_N * coq_N) list **)

let rec canon j m =
  match j with
  | JArr l ->
    let (l', m') =
      let rec go l0 m0 =
        match l0 with
        | [] -> ([], m0)
        | x :: r ->
          let (x', m1) = canon x m0 in
          let (r', m2) = go r m1 in ((x' :: r'), m2)
      in go l m
    in
    ((JArr l'), m')
  | JObj l ->
    let (l', m') =
      let rec go l0 m0 =
        match l0 with
        | [] -> ([], m0)
        | p :: r ->
          let (k, x) = p in
          let (x', m1) =
            if str_eqb k
                 (s_ (String ((Ascii (true, true, false, false, false, true,
                   true, false)), (String ((Ascii (false, false, true, false,
                   true, true, true, false)), (String ((Ascii (false, false,
                   false, true, true, true, true, false)), (String ((Ascii
                   (false, false, true, false, true, true, true, false)),
                   EmptyString)))))))))
            then (match x with
                  | JNum s ->
                    (match coq_N_of_dec s with
                     | Some c ->
                       let (c', m1) = canon_ctx c m0 in
                       ((JNum (dec_of_N c')), m1)
                     | None -> (x, m0))
                  | _ -> canon x m0)
            else canon x m0
          in
          let (r', m2) = go r m1 in (((k, x') :: r'), m2)
      in go l m
    in
    ((JObj l'), m')
  | _ -> (j, m)
