open Ascii
open Ast
open BinNat
open BinNums
open Datatypes
open Directive
open Json
open List
open State
open Str
open String
open Tables
open Text
open Util

(** val all_digits : str -> bool **)

let all_digits s =
  forallb (fun c ->
    (&&) (N.leb (Npos (Coq_xO (Coq_xO (Coq_xO (Coq_xO (Coq_xI Coq_xH)))))) c)
      (N.leb c (Npos (Coq_xI (Coq_xO (Coq_xO (Coq_xI (Coq_xI Coq_xH)))))))) s

(** val is_fragment_name : str -> bool **)

let is_fragment_name name =
  let n =
    match strip_prefix ((Npos (Coq_xI (Coq_xI (Coq_xI (Coq_xI (Coq_xI (Coq_xO
            Coq_xH))))))) :: []) name with
    | Some r -> r
    | None -> name
  in
  (match strip_prefix
           (s_ (String ((Ascii (false, true, true, false, false, false, true,
             false)), (String ((Ascii (false, true, false, false, true, true,
             true, false)), (String ((Ascii (true, false, false, false,
             false, true, true, false)), (String ((Ascii (true, true, true,
             false, false, true, true, false)), (String ((Ascii (true, false,
             true, true, false, true, true, false)), (String ((Ascii (true,
             false, true, false, false, true, true, false)), (String ((Ascii
             (false, true, true, true, false, true, true, false)), (String
             ((Ascii (false, false, true, false, true, true, true, false)),
             EmptyString))))))))))))))))) n with
   | Some suffix -> all_digits suffix
   | None -> false)

(** val tag_name_str : node -> str **)

let tag_name_str name = match name with
| NObj _ ->
  (match nfield (String ((Ascii (false, false, false, false, true, true,
           true, false)), (String ((Ascii (false, true, false, false, true,
           true, true, false)), (String ((Ascii (true, true, true, true,
           false, true, true, false)), (String ((Ascii (false, false, false,
           false, true, true, true, false)), (String ((Ascii (true, false,
           true, false, false, true, true, false)), (String ((Ascii (false,
           true, false, false, true, true, true, false)), (String ((Ascii
           (false, false, true, false, true, true, true, false)), (String
           ((Ascii (true, false, false, true, true, true, true, false)),
           EmptyString)))))))))))))))) name with
   | Some n -> (match n with
                | IdName s -> s
                | _ -> [])
   | None -> [])
| Ident (s, _, _) -> s
| JNs (_, name0) -> (match name0 with
                     | IdName s -> s
                     | _ -> [])
| _ -> []

(** val is_member_tag : node -> bool **)

let is_member_tag name =
  sq (String ((Ascii (false, true, false, true, false, false, true, false)),
    (String ((Ascii (true, true, false, false, true, false, true, false)),
    (String ((Ascii (false, false, false, true, true, false, true, false)),
    (String ((Ascii (true, false, true, true, false, false, true, false)),
    (String ((Ascii (true, false, true, false, false, true, true, false)),
    (String ((Ascii (true, false, true, true, false, true, true, false)),
    (String ((Ascii (false, true, false, false, false, true, true, false)),
    (String ((Ascii (true, false, true, false, false, true, true, false)),
    (String ((Ascii (false, true, false, false, true, true, true, false)),
    (String ((Ascii (true, false, true, false, false, false, true, false)),
    (String ((Ascii (false, false, false, true, true, true, true, false)),
    (String ((Ascii (false, false, false, false, true, true, true, false)),
    (String ((Ascii (false, true, false, false, true, true, true, false)),
    (String ((Ascii (true, false, true, false, false, true, true, false)),
    (String ((Ascii (true, true, false, false, true, true, true, false)),
    (String ((Ascii (true, true, false, false, true, true, true, false)),
    (String ((Ascii (true, false, false, true, false, true, true, false)),
    (String ((Ascii (true, true, true, true, false, true, true, false)),
    (String ((Ascii (false, true, true, true, false, true, true, false)),
    EmptyString)))))))))))))))))))))))))))))))))))))) (ntype name)

(** val is_component : env -> node -> bool **)

let is_component e name =
  let n = tag_name_str name in
  let should =
    (&&) (negb (is_fragment_name n))
      (negb
        (sq (String ((Ascii (true, true, false, true, false, false, true,
          false)), (String ((Ascii (true, false, true, false, false, true,
          true, false)), (String ((Ascii (true, false, true, false, false,
          true, true, false)), (String ((Ascii (false, false, false, false,
          true, true, true, false)), (String ((Ascii (true, false, false,
          false, false, false, true, false)), (String ((Ascii (false, false,
          true, true, false, true, true, false)), (String ((Ascii (true,
          false, false, true, false, true, true, false)), (String ((Ascii
          (false, true, true, false, true, true, true, false)), (String
          ((Ascii (true, false, true, false, false, true, true, false)),
          EmptyString)))))))))))))))))) n))
  in
  if is_member_tag name
  then should
  else (&&) ((&&) (negb (pat_any e n)) should) (negb (is_html_or_svg e n))

(** val transform_tag : env -> node -> st -> node * st **)

let transform_tag e name s =
  match name with
  | Ident (n, c, _) ->
    if is_html_or_svg e n
    then ((mk_str n), s)
    else if sq (String ((Ascii (false, true, true, false, false, false, true,
              false)), (String ((Ascii (false, true, false, false, true,
              true, true, false)), (String ((Ascii (true, false, false,
              false, false, true, true, false)), (String ((Ascii (true, true,
              true, false, false, true, true, false)), (String ((Ascii (true,
              false, true, true, false, true, true, false)), (String ((Ascii
              (true, false, true, false, false, true, true, false)), (String
              ((Ascii (false, true, true, true, false, true, true, false)),
              (String ((Ascii (false, false, true, false, true, true, true,
              false)), EmptyString)))))))))))))))) n
         then import_from_vue (String ((Ascii (false, true, true, false,
                false, false, true, false)), (String ((Ascii (false, true,
                false, false, true, true, true, false)), (String ((Ascii
                (true, false, false, false, false, true, true, false)),
                (String ((Ascii (true, true, true, false, false, true, true,
                false)), (String ((Ascii (true, false, true, true, false,
                true, true, false)), (String ((Ascii (true, false, true,
                false, false, true, true, false)), (String ((Ascii (false,
                true, true, true, false, true, true, false)), (String ((Ascii
                (false, false, true, false, true, true, true, false)),
                EmptyString)))))))))))))))) s
         else if pat_any e n
              then ((mk_str n), s)
              else if N.eqb c e.e_unres
                   then let (h, s0) =
                          import_from_vue (String ((Ascii (false, true,
                            false, false, true, true, true, false)), (String
                            ((Ascii (true, false, true, false, false, true,
                            true, false)), (String ((Ascii (true, true,
                            false, false, true, true, true, false)), (String
                            ((Ascii (true, true, true, true, false, true,
                            true, false)), (String ((Ascii (false, false,
                            true, true, false, true, true, false)), (String
                            ((Ascii (false, true, true, false, true, true,
                            true, false)), (String ((Ascii (true, false,
                            true, false, false, true, true, false)), (String
                            ((Ascii (true, true, false, false, false, false,
                            true, false)), (String ((Ascii (true, true, true,
                            true, false, true, true, false)), (String ((Ascii
                            (true, false, true, true, false, true, true,
                            false)), (String ((Ascii (false, false, false,
                            false, true, true, true, false)), (String ((Ascii
                            (true, true, true, true, false, true, true,
                            false)), (String ((Ascii (false, true, true,
                            true, false, true, true, false)), (String ((Ascii
                            (true, false, true, false, false, true, true,
                            false)), (String ((Ascii (false, true, true,
                            true, false, true, true, false)), (String ((Ascii
                            (false, false, true, false, true, true, true,
                            false)),
                            EmptyString)))))))))))))))))))))))))))))))) s
                        in
                        ((mk_call h ((mk_str n) :: [])), s0)
                   else (name, s)
  | JNs (ns0, name0) ->
    (match ns0 with
     | IdName ns ->
       (match name0 with
        | IdName nm ->
          ((mk_str
             (app ns
               (app ((Npos (Coq_xO (Coq_xI (Coq_xO (Coq_xI (Coq_xI
                 Coq_xH)))))) :: []) nm))),
            (add_diag (String ((Ascii (false, true, true, true, false, false,
              true, false)), (String ((Ascii (true, false, false, false,
              false, true, true, false)), (String ((Ascii (true, false, true,
              true, false, true, true, false)), (String ((Ascii (true, false,
              true, false, false, true, true, false)), (String ((Ascii (true,
              true, false, false, true, true, true, false)), (String ((Ascii
              (false, false, false, false, true, true, true, false)), (String
              ((Ascii (true, false, false, false, false, true, true, false)),
              (String ((Ascii (true, true, false, false, false, true, true,
              false)), (String ((Ascii (true, false, true, false, false,
              true, true, false)), (String ((Ascii (false, false, false,
              false, false, true, false, false)), (String ((Ascii (false,
              false, true, false, true, true, true, false)), (String ((Ascii
              (true, false, false, false, false, true, true, false)), (String
              ((Ascii (true, true, true, false, false, true, true, false)),
              (String ((Ascii (true, true, false, false, true, true, true,
              false)), (String ((Ascii (false, false, false, false, false,
              true, false, false)), (String ((Ascii (true, false, false,
              false, false, true, true, false)), (String ((Ascii (false,
              true, false, false, true, true, true, false)), (String ((Ascii
              (true, false, true, false, false, true, true, false)), (String
              ((Ascii (false, false, false, false, false, true, false,
              false)), (String ((Ascii (false, true, true, true, false, true,
              true, false)), (String ((Ascii (true, true, true, true, false,
              true, true, false)), (String ((Ascii (false, false, true,
              false, true, true, true, false)), (String ((Ascii (false,
              false, false, false, false, true, false, false)), (String
              ((Ascii (true, true, false, false, true, true, true, false)),
              (String ((Ascii (true, false, true, false, true, true, true,
              false)), (String ((Ascii (false, false, false, false, true,
              true, true, false)), (String ((Ascii (false, false, false,
              false, true, true, true, false)), (String ((Ascii (true, true,
              true, true, false, true, true, false)), (String ((Ascii (false,
              true, false, false, true, true, true, false)), (String ((Ascii
              (false, false, true, false, true, true, true, false)), (String
              ((Ascii (true, false, true, false, false, true, true, false)),
              (String ((Ascii (false, false, true, false, false, true, true,
              false)), (String ((Ascii (false, true, true, true, false, true,
              false, false)), (String ((Ascii (false, false, false, false,
              false, true, false, false)), (String ((Ascii (false, true,
              true, false, true, false, true, false)), (String ((Ascii (true,
              false, true, false, true, true, true, false)), (String ((Ascii
              (true, false, true, false, false, true, true, false)), (String
              ((Ascii (true, true, true, false, false, true, false, false)),
              (String ((Ascii (true, true, false, false, true, true, true,
              false)), (String ((Ascii (false, false, false, false, false,
              true, false, false)), (String ((Ascii (false, true, false,
              true, false, false, true, false)), (String ((Ascii (true, true,
              false, false, true, false, true, false)), (String ((Ascii
              (false, false, false, true, true, false, true, false)), (String
              ((Ascii (false, false, false, false, false, true, false,
              false)), (String ((Ascii (false, false, true, false, false,
              true, true, false)), (String ((Ascii (true, true, true, true,
              false, true, true, false)), (String ((Ascii (true, false, true,
              false, false, true, true, false)), (String ((Ascii (true, true,
              false, false, true, true, true, false)), (String ((Ascii
              (false, true, true, true, false, true, true, false)), (String
              ((Ascii (true, true, true, false, false, true, false, false)),
              (String ((Ascii (false, false, true, false, true, true, true,
              false)), (String ((Ascii (false, false, false, false, false,
              true, false, false)), (String ((Ascii (false, false, false,
              true, false, true, true, false)), (String ((Ascii (true, false,
              false, false, false, true, true, false)), (String ((Ascii
              (false, true, true, false, true, true, true, false)), (String
              ((Ascii (true, false, true, false, false, true, true, false)),
              (String ((Ascii (false, false, false, false, false, true,
              false, false)), (String ((Ascii (false, true, true, true,
              false, true, true, false)), (String ((Ascii (true, false,
              false, false, false, true, true, false)), (String ((Ascii
              (true, false, true, true, false, true, true, false)), (String
              ((Ascii (true, false, true, false, false, true, true, false)),
              (String ((Ascii (true, true, false, false, true, true, true,
              false)), (String ((Ascii (false, false, false, false, true,
              true, true, false)), (String ((Ascii (true, false, false,
              false, false, true, true, false)), (String ((Ascii (true, true,
              false, false, false, true, true, false)), (String ((Ascii
              (true, false, true, false, false, true, true, false)), (String
              ((Ascii (false, false, false, false, false, true, false,
              false)), (String ((Ascii (true, true, false, false, true, true,
              true, false)), (String ((Ascii (true, false, true, false,
              false, true, true, false)), (String ((Ascii (true, false, true,
              true, false, true, true, false)), (String ((Ascii (true, false,
              false, false, false, true, true, false)), (String ((Ascii
              (false, true, true, true, false, true, true, false)), (String
              ((Ascii (false, false, true, false, true, true, true, false)),
              (String ((Ascii (true, false, false, true, false, true, true,
              false)), (String ((Ascii (true, true, false, false, false,
              true, true, false)), (String ((Ascii (true, true, false, false,
              true, true, true, false)), (String ((Ascii (false, true, true,
              true, false, true, false, false)),
              EmptyString))))))))))))))))))))))))))))))))))))))))))))))))))))))))))))))))))))))))))))))))))))))))))))))))))))))))))))))))))))))))))))))))))))))))))))))))))))))))))
              s))
        | _ -> (name, s))
     | _ -> (name, s))
  | _ -> (name, s)

(** val get_pragma : env -> st -> node * st **)

let get_pragma e =
  let o = e.e_opts in
  (fun s ->
  match s.pragma with
  | Some p -> ((mk_ident p N0), s)
  | None ->
    (match o.o_pragma with
     | Some p -> ((mk_ident p N0), s)
     | None ->
       import_from_vue (String ((Ascii (true, true, false, false, false,
         true, true, false)), (String ((Ascii (false, true, false, false,
         true, true, true, false)), (String ((Ascii (true, false, true,
         false, false, true, true, false)), (String ((Ascii (true, false,
         false, false, false, true, true, false)), (String ((Ascii (false,
         false, true, false, true, true, true, false)), (String ((Ascii
         (true, false, true, false, false, true, true, false)), (String
         ((Ascii (false, true, true, false, true, false, true, false)),
         (String ((Ascii (false, true, true, true, false, false, true,
         false)), (String ((Ascii (true, true, true, true, false, true, true,
         false)), (String ((Ascii (false, false, true, false, false, true,
         true, false)), (String ((Ascii (true, false, true, false, false,
         true, true, false)), EmptyString)))))))))))))))))))))) s))

type acc = { a_props : node list; a_margs : node list; a_dyn : str list;
             a_dirs : directive list; a_slots : node option; a_ref : 
             bool; a_class : bool; a_style : bool; a_hyd : bool;
             a_dynkeys : bool; a_st : st }

(** val kv_str : str -> node -> node **)

let kv_str k v =
  KV ((mk_str k), v)

(** val listener : node -> node **)

let listener target =
  mk_arrow
    ((mk_bident
       (s_ (String ((Ascii (false, false, true, false, false, true, false,
         false)), (String ((Ascii (true, false, true, false, false, true,
         true, false)), (String ((Ascii (false, true, true, false, true,
         true, true, false)), (String ((Ascii (true, false, true, false,
         false, true, true, false)), (String ((Ascii (false, true, true,
         true, false, true, true, false)), (String ((Ascii (false, false,
         true, false, true, true, true, false)), EmptyString))))))))))))) N0) :: [])
    (Assign
    ((s_ (String ((Ascii (true, false, true, true, true, true, false,
       false)), EmptyString))), (Paren target),
    (mk_ident
      (s_ (String ((Ascii (false, false, true, false, false, true, false,
        false)), (String ((Ascii (true, false, true, false, false, true,
        true, false)), (String ((Ascii (false, true, true, false, true, true,
        true, false)), (String ((Ascii (true, false, true, false, false,
        true, true, false)), (String ((Ascii (false, true, true, true, false,
        true, true, false)), (String ((Ascii (false, false, true, false,
        true, true, true, false)), EmptyString))))))))))))) N0)))

(** val attr_name_str : node -> str **)

let attr_name_str = function
| IdName s -> s
| JNs (ns0, name0) ->
  (match ns0 with
   | IdName ns ->
     (match name0 with
      | IdName n ->
        app ns
          (app ((Npos (Coq_xO (Coq_xI (Coq_xO (Coq_xI (Coq_xI
            Coq_xH)))))) :: []) n)
      | _ -> [])
   | _ -> [])
| _ -> []

(** val flush_obj : env -> node list -> node **)

let flush_obj e =
  let o = e.e_opts in
  (fun props -> Obj (if o.o_merge_props then dedupe_props props else props))

(** val step_vmodel :
    bool -> acc -> node option -> node option -> node option -> node -> acc **)

let step_vmodel is_comp a argument targ modifiers value =
  let props = a.a_props in
  let dyn = a.a_dyn in
  let dirs = a.a_dirs in
  let (p, dirs0) =
    if is_comp
    then (match argument with
          | Some e ->
            (match e with
             | Str (v, _) ->
               let key = mk_str v in
               let dyn0 = iset_insert v dyn in
               let props0 = app props ((KV (key, value)) :: []) in
               let props1 =
                 match modifiers with
                 | Some m ->
                   let key0 =
                     match argument with
                     | Some e0 ->
                       (match e0 with
                        | Str (v0, _) ->
                          mk_str
                            (app v0
                              (s_ (String ((Ascii (true, false, true, true,
                                false, false, true, false)), (String ((Ascii
                                (true, true, true, true, false, true, true,
                                false)), (String ((Ascii (false, false, true,
                                false, false, true, true, false)), (String
                                ((Ascii (true, false, false, true, false,
                                true, true, false)), (String ((Ascii (false,
                                true, true, false, false, true, true,
                                false)), (String ((Ascii (true, false, false,
                                true, false, true, true, false)), (String
                                ((Ascii (true, false, true, false, false,
                                true, true, false)), (String ((Ascii (false,
                                true, false, false, true, true, true,
                                false)), (String ((Ascii (true, true, false,
                                false, true, true, true, false)),
                                EmptyString))))))))))))))))))))
                        | Null ->
                          mk_strS (String ((Ascii (true, false, true, true,
                            false, true, true, false)), (String ((Ascii
                            (true, true, true, true, false, true, true,
                            false)), (String ((Ascii (false, false, true,
                            false, false, true, true, false)), (String
                            ((Ascii (true, false, true, false, false, true,
                            true, false)), (String ((Ascii (false, false,
                            true, true, false, true, true, false)), (String
                            ((Ascii (true, false, true, true, false, false,
                            true, false)), (String ((Ascii (true, true, true,
                            true, false, true, true, false)), (String ((Ascii
                            (false, false, true, false, false, true, true,
                            false)), (String ((Ascii (true, false, false,
                            true, false, true, true, false)), (String ((Ascii
                            (false, true, true, false, false, true, true,
                            false)), (String ((Ascii (true, false, false,
                            true, false, true, true, false)), (String ((Ascii
                            (true, false, true, false, false, true, true,
                            false)), (String ((Ascii (false, true, false,
                            false, true, true, true, false)), (String ((Ascii
                            (true, true, false, false, true, true, true,
                            false)), EmptyString))))))))))))))))))))))))))))
                        | _ ->
                          Computed (Bin
                            ((s_ (String ((Ascii (true, true, false, true,
                               false, true, false, false)), EmptyString))),
                            e0,
                            (mk_strS (String ((Ascii (true, false, true,
                              true, false, false, true, false)), (String
                              ((Ascii (true, true, true, true, false, true,
                              true, false)), (String ((Ascii (false, false,
                              true, false, false, true, true, false)),
                              (String ((Ascii (true, false, false, true,
                              false, true, true, false)), (String ((Ascii
                              (false, true, true, false, false, true, true,
                              false)), (String ((Ascii (true, false, false,
                              true, false, true, true, false)), (String
                              ((Ascii (true, false, true, false, false, true,
                              true, false)), (String ((Ascii (false, true,
                              false, false, true, true, true, false)),
                              (String ((Ascii (true, true, false, false,
                              true, true, true, false)),
                              EmptyString))))))))))))))))))))))
                     | None ->
                       mk_strS (String ((Ascii (true, false, true, true,
                         false, true, true, false)), (String ((Ascii (true,
                         true, true, true, false, true, true, false)),
                         (String ((Ascii (false, false, true, false, false,
                         true, true, false)), (String ((Ascii (true, false,
                         true, false, false, true, true, false)), (String
                         ((Ascii (false, false, true, true, false, true,
                         true, false)), (String ((Ascii (true, false, true,
                         true, false, false, true, false)), (String ((Ascii
                         (true, true, true, true, false, true, true, false)),
                         (String ((Ascii (false, false, true, false, false,
                         true, true, false)), (String ((Ascii (true, false,
                         false, true, false, true, true, false)), (String
                         ((Ascii (false, true, true, false, false, true,
                         true, false)), (String ((Ascii (true, false, false,
                         true, false, true, true, false)), (String ((Ascii
                         (true, false, true, false, false, true, true,
                         false)), (String ((Ascii (false, true, false, false,
                         true, true, true, false)), (String ((Ascii (true,
                         true, false, false, true, true, true, false)),
                         EmptyString))))))))))))))))))))))))))))
                   in
                   app props0 ((KV (key0, m)) :: [])
                 | None -> props0
               in
               ((props1, dyn0), dirs)
             | Null ->
               let key =
                 mk_strS (String ((Ascii (true, false, true, true, false,
                   true, true, false)), (String ((Ascii (true, true, true,
                   true, false, true, true, false)), (String ((Ascii (false,
                   false, true, false, false, true, true, false)), (String
                   ((Ascii (true, false, true, false, false, true, true,
                   false)), (String ((Ascii (false, false, true, true, false,
                   true, true, false)), (String ((Ascii (false, true, true,
                   false, true, false, true, false)), (String ((Ascii (true,
                   false, false, false, false, true, true, false)), (String
                   ((Ascii (false, false, true, true, false, true, true,
                   false)), (String ((Ascii (true, false, true, false, true,
                   true, true, false)), (String ((Ascii (true, false, true,
                   false, false, true, true, false)),
                   EmptyString))))))))))))))))))))
               in
               let dyn0 =
                 iset_insert
                   (s_ (String ((Ascii (true, false, true, true, false, true,
                     true, false)), (String ((Ascii (true, true, true, true,
                     false, true, true, false)), (String ((Ascii (false,
                     false, true, false, false, true, true, false)), (String
                     ((Ascii (true, false, true, false, false, true, true,
                     false)), (String ((Ascii (false, false, true, true,
                     false, true, true, false)), (String ((Ascii (false,
                     true, true, false, true, false, true, false)), (String
                     ((Ascii (true, false, false, false, false, true, true,
                     false)), (String ((Ascii (false, false, true, true,
                     false, true, true, false)), (String ((Ascii (true,
                     false, true, false, true, true, true, false)), (String
                     ((Ascii (true, false, true, false, false, true, true,
                     false)), EmptyString))))))))))))))))))))) dyn
               in
               let props0 = app props ((KV (key, value)) :: []) in
               let props1 =
                 match modifiers with
                 | Some m ->
                   let key0 =
                     match argument with
                     | Some e0 ->
                       (match e0 with
                        | Str (v, _) ->
                          mk_str
                            (app v
                              (s_ (String ((Ascii (true, false, true, true,
                                false, false, true, false)), (String ((Ascii
                                (true, true, true, true, false, true, true,
                                false)), (String ((Ascii (false, false, true,
                                false, false, true, true, false)), (String
                                ((Ascii (true, false, false, true, false,
                                true, true, false)), (String ((Ascii (false,
                                true, true, false, false, true, true,
                                false)), (String ((Ascii (true, false, false,
                                true, false, true, true, false)), (String
                                ((Ascii (true, false, true, false, false,
                                true, true, false)), (String ((Ascii (false,
                                true, false, false, true, true, true,
                                false)), (String ((Ascii (true, true, false,
                                false, true, true, true, false)),
                                EmptyString))))))))))))))))))))
                        | Null ->
                          mk_strS (String ((Ascii (true, false, true, true,
                            false, true, true, false)), (String ((Ascii
                            (true, true, true, true, false, true, true,
                            false)), (String ((Ascii (false, false, true,
                            false, false, true, true, false)), (String
                            ((Ascii (true, false, true, false, false, true,
                            true, false)), (String ((Ascii (false, false,
                            true, true, false, true, true, false)), (String
                            ((Ascii (true, false, true, true, false, false,
                            true, false)), (String ((Ascii (true, true, true,
                            true, false, true, true, false)), (String ((Ascii
                            (false, false, true, false, false, true, true,
                            false)), (String ((Ascii (true, false, false,
                            true, false, true, true, false)), (String ((Ascii
                            (false, true, true, false, false, true, true,
                            false)), (String ((Ascii (true, false, false,
                            true, false, true, true, false)), (String ((Ascii
                            (true, false, true, false, false, true, true,
                            false)), (String ((Ascii (false, true, false,
                            false, true, true, true, false)), (String ((Ascii
                            (true, true, false, false, true, true, true,
                            false)), EmptyString))))))))))))))))))))))))))))
                        | _ ->
                          Computed (Bin
                            ((s_ (String ((Ascii (true, true, false, true,
                               false, true, false, false)), EmptyString))),
                            e0,
                            (mk_strS (String ((Ascii (true, false, true,
                              true, false, false, true, false)), (String
                              ((Ascii (true, true, true, true, false, true,
                              true, false)), (String ((Ascii (false, false,
                              true, false, false, true, true, false)),
                              (String ((Ascii (true, false, false, true,
                              false, true, true, false)), (String ((Ascii
                              (false, true, true, false, false, true, true,
                              false)), (String ((Ascii (true, false, false,
                              true, false, true, true, false)), (String
                              ((Ascii (true, false, true, false, false, true,
                              true, false)), (String ((Ascii (false, true,
                              false, false, true, true, true, false)),
                              (String ((Ascii (true, true, false, false,
                              true, true, true, false)),
                              EmptyString))))))))))))))))))))))
                     | None ->
                       mk_strS (String ((Ascii (true, false, true, true,
                         false, true, true, false)), (String ((Ascii (true,
                         true, true, true, false, true, true, false)),
                         (String ((Ascii (false, false, true, false, false,
                         true, true, false)), (String ((Ascii (true, false,
                         true, false, false, true, true, false)), (String
                         ((Ascii (false, false, true, true, false, true,
                         true, false)), (String ((Ascii (true, false, true,
                         true, false, false, true, false)), (String ((Ascii
                         (true, true, true, true, false, true, true, false)),
                         (String ((Ascii (false, false, true, false, false,
                         true, true, false)), (String ((Ascii (true, false,
                         false, true, false, true, true, false)), (String
                         ((Ascii (false, true, true, false, false, true,
                         true, false)), (String ((Ascii (true, false, false,
                         true, false, true, true, false)), (String ((Ascii
                         (true, false, true, false, false, true, true,
                         false)), (String ((Ascii (false, true, false, false,
                         true, true, true, false)), (String ((Ascii (true,
                         true, false, false, true, true, true, false)),
                         EmptyString))))))))))))))))))))))))))))
                   in
                   app props0 ((KV (key0, m)) :: [])
                 | None -> props0
               in
               ((props1, dyn0), dirs)
             | _ ->
               let key = Computed e in
               let props0 = app props ((KV (key, value)) :: []) in
               let props1 =
                 match modifiers with
                 | Some m ->
                   let key0 =
                     match argument with
                     | Some e0 ->
                       (match e0 with
                        | Str (v, _) ->
                          mk_str
                            (app v
                              (s_ (String ((Ascii (true, false, true, true,
                                false, false, true, false)), (String ((Ascii
                                (true, true, true, true, false, true, true,
                                false)), (String ((Ascii (false, false, true,
                                false, false, true, true, false)), (String
                                ((Ascii (true, false, false, true, false,
                                true, true, false)), (String ((Ascii (false,
                                true, true, false, false, true, true,
                                false)), (String ((Ascii (true, false, false,
                                true, false, true, true, false)), (String
                                ((Ascii (true, false, true, false, false,
                                true, true, false)), (String ((Ascii (false,
                                true, false, false, true, true, true,
                                false)), (String ((Ascii (true, true, false,
                                false, true, true, true, false)),
                                EmptyString))))))))))))))))))))
                        | Null ->
                          mk_strS (String ((Ascii (true, false, true, true,
                            false, true, true, false)), (String ((Ascii
                            (true, true, true, true, false, true, true,
                            false)), (String ((Ascii (false, false, true,
                            false, false, true, true, false)), (String
                            ((Ascii (true, false, true, false, false, true,
                            true, false)), (String ((Ascii (false, false,
                            true, true, false, true, true, false)), (String
                            ((Ascii (true, false, true, true, false, false,
                            true, false)), (String ((Ascii (true, true, true,
                            true, false, true, true, false)), (String ((Ascii
                            (false, false, true, false, false, true, true,
                            false)), (String ((Ascii (true, false, false,
                            true, false, true, true, false)), (String ((Ascii
                            (false, true, true, false, false, true, true,
                            false)), (String ((Ascii (true, false, false,
                            true, false, true, true, false)), (String ((Ascii
                            (true, false, true, false, false, true, true,
                            false)), (String ((Ascii (false, true, false,
                            false, true, true, true, false)), (String ((Ascii
                            (true, true, false, false, true, true, true,
                            false)), EmptyString))))))))))))))))))))))))))))
                        | _ ->
                          Computed (Bin
                            ((s_ (String ((Ascii (true, true, false, true,
                               false, true, false, false)), EmptyString))),
                            e0,
                            (mk_strS (String ((Ascii (true, false, true,
                              true, false, false, true, false)), (String
                              ((Ascii (true, true, true, true, false, true,
                              true, false)), (String ((Ascii (false, false,
                              true, false, false, true, true, false)),
                              (String ((Ascii (true, false, false, true,
                              false, true, true, false)), (String ((Ascii
                              (false, true, true, false, false, true, true,
                              false)), (String ((Ascii (true, false, false,
                              true, false, true, true, false)), (String
                              ((Ascii (true, false, true, false, false, true,
                              true, false)), (String ((Ascii (false, true,
                              false, false, true, true, true, false)),
                              (String ((Ascii (true, true, false, false,
                              true, true, true, false)),
                              EmptyString))))))))))))))))))))))
                     | None ->
                       mk_strS (String ((Ascii (true, false, true, true,
                         false, true, true, false)), (String ((Ascii (true,
                         true, true, true, false, true, true, false)),
                         (String ((Ascii (false, false, true, false, false,
                         true, true, false)), (String ((Ascii (true, false,
                         true, false, false, true, true, false)), (String
                         ((Ascii (false, false, true, true, false, true,
                         true, false)), (String ((Ascii (true, false, true,
                         true, false, false, true, false)), (String ((Ascii
                         (true, true, true, true, false, true, true, false)),
                         (String ((Ascii (false, false, true, false, false,
                         true, true, false)), (String ((Ascii (true, false,
                         false, true, false, true, true, false)), (String
                         ((Ascii (false, true, true, false, false, true,
                         true, false)), (String ((Ascii (true, false, false,
                         true, false, true, true, false)), (String ((Ascii
                         (true, false, true, false, false, true, true,
                         false)), (String ((Ascii (false, true, false, false,
                         true, true, true, false)), (String ((Ascii (true,
                         true, false, false, true, true, true, false)),
                         EmptyString))))))))))))))))))))))))))))
                   in
                   app props0 ((KV (key0, m)) :: [])
                 | None -> props0
               in
               ((props1, dyn), dirs))
          | None ->
            let key =
              mk_strS (String ((Ascii (true, false, true, true, false, true,
                true, false)), (String ((Ascii (true, true, true, true,
                false, true, true, false)), (String ((Ascii (false, false,
                true, false, false, true, true, false)), (String ((Ascii
                (true, false, true, false, false, true, true, false)),
                (String ((Ascii (false, false, true, true, false, true, true,
                false)), (String ((Ascii (false, true, true, false, true,
                false, true, false)), (String ((Ascii (true, false, false,
                false, false, true, true, false)), (String ((Ascii (false,
                false, true, true, false, true, true, false)), (String
                ((Ascii (true, false, true, false, true, true, true, false)),
                (String ((Ascii (true, false, true, false, false, true, true,
                false)), EmptyString))))))))))))))))))))
            in
            let dyn0 =
              iset_insert
                (s_ (String ((Ascii (true, false, true, true, false, true,
                  true, false)), (String ((Ascii (true, true, true, true,
                  false, true, true, false)), (String ((Ascii (false, false,
                  true, false, false, true, true, false)), (String ((Ascii
                  (true, false, true, false, false, true, true, false)),
                  (String ((Ascii (false, false, true, true, false, true,
                  true, false)), (String ((Ascii (false, true, true, false,
                  true, false, true, false)), (String ((Ascii (true, false,
                  false, false, false, true, true, false)), (String ((Ascii
                  (false, false, true, true, false, true, true, false)),
                  (String ((Ascii (true, false, true, false, true, true,
                  true, false)), (String ((Ascii (true, false, true, false,
                  false, true, true, false)), EmptyString)))))))))))))))))))))
                dyn
            in
            let props0 = app props ((KV (key, value)) :: []) in
            let props1 =
              match modifiers with
              | Some m ->
                let key0 =
                  match argument with
                  | Some e ->
                    (match e with
                     | Str (v, _) ->
                       mk_str
                         (app v
                           (s_ (String ((Ascii (true, false, true, true,
                             false, false, true, false)), (String ((Ascii
                             (true, true, true, true, false, true, true,
                             false)), (String ((Ascii (false, false, true,
                             false, false, true, true, false)), (String
                             ((Ascii (true, false, false, true, false, true,
                             true, false)), (String ((Ascii (false, true,
                             true, false, false, true, true, false)), (String
                             ((Ascii (true, false, false, true, false, true,
                             true, false)), (String ((Ascii (true, false,
                             true, false, false, true, true, false)), (String
                             ((Ascii (false, true, false, false, true, true,
                             true, false)), (String ((Ascii (true, true,
                             false, false, true, true, true, false)),
                             EmptyString))))))))))))))))))))
                     | Null ->
                       mk_strS (String ((Ascii (true, false, true, true,
                         false, true, true, false)), (String ((Ascii (true,
                         true, true, true, false, true, true, false)),
                         (String ((Ascii (false, false, true, false, false,
                         true, true, false)), (String ((Ascii (true, false,
                         true, false, false, true, true, false)), (String
                         ((Ascii (false, false, true, true, false, true,
                         true, false)), (String ((Ascii (true, false, true,
                         true, false, false, true, false)), (String ((Ascii
                         (true, true, true, true, false, true, true, false)),
                         (String ((Ascii (false, false, true, false, false,
                         true, true, false)), (String ((Ascii (true, false,
                         false, true, false, true, true, false)), (String
                         ((Ascii (false, true, true, false, false, true,
                         true, false)), (String ((Ascii (true, false, false,
                         true, false, true, true, false)), (String ((Ascii
                         (true, false, true, false, false, true, true,
                         false)), (String ((Ascii (false, true, false, false,
                         true, true, true, false)), (String ((Ascii (true,
                         true, false, false, true, true, true, false)),
                         EmptyString))))))))))))))))))))))))))))
                     | _ ->
                       Computed (Bin
                         ((s_ (String ((Ascii (true, true, false, true,
                            false, true, false, false)), EmptyString))), e,
                         (mk_strS (String ((Ascii (true, false, true, true,
                           false, false, true, false)), (String ((Ascii
                           (true, true, true, true, false, true, true,
                           false)), (String ((Ascii (false, false, true,
                           false, false, true, true, false)), (String ((Ascii
                           (true, false, false, true, false, true, true,
                           false)), (String ((Ascii (false, true, true,
                           false, false, true, true, false)), (String ((Ascii
                           (true, false, false, true, false, true, true,
                           false)), (String ((Ascii (true, false, true,
                           false, false, true, true, false)), (String ((Ascii
                           (false, true, false, false, true, true, true,
                           false)), (String ((Ascii (true, true, false,
                           false, true, true, true, false)),
                           EmptyString))))))))))))))))))))))
                  | None ->
                    mk_strS (String ((Ascii (true, false, true, true, false,
                      true, true, false)), (String ((Ascii (true, true, true,
                      true, false, true, true, false)), (String ((Ascii
                      (false, false, true, false, false, true, true, false)),
                      (String ((Ascii (true, false, true, false, false, true,
                      true, false)), (String ((Ascii (false, false, true,
                      true, false, true, true, false)), (String ((Ascii
                      (true, false, true, true, false, false, true, false)),
                      (String ((Ascii (true, true, true, true, false, true,
                      true, false)), (String ((Ascii (false, false, true,
                      false, false, true, true, false)), (String ((Ascii
                      (true, false, false, true, false, true, true, false)),
                      (String ((Ascii (false, true, true, false, false, true,
                      true, false)), (String ((Ascii (true, false, false,
                      true, false, true, true, false)), (String ((Ascii
                      (true, false, true, false, false, true, true, false)),
                      (String ((Ascii (false, true, false, false, true, true,
                      true, false)), (String ((Ascii (true, true, false,
                      false, true, true, true, false)),
                      EmptyString))))))))))))))))))))))))))))
                in
                app props0 ((KV (key0, m)) :: [])
              | None -> props0
            in
            ((props1, dyn0), dirs))
    else ((props, dyn),
           (app dirs ((DNormal
             ((s_ (String ((Ascii (true, false, true, true, false, true,
                true, false)), (String ((Ascii (true, true, true, true,
                false, true, true, false)), (String ((Ascii (false, false,
                true, false, false, true, true, false)), (String ((Ascii
                (true, false, true, false, false, true, true, false)),
                (String ((Ascii (false, false, true, true, false, true, true,
                false)), EmptyString))))))))))), targ, modifiers,
             value)) :: [])))
  in
  let (props0, dyn0) = p in
  let (p0, dk) =
    match argument with
    | Some e ->
      (match e with
       | Str (v, _) ->
         let n =
           app
             (s_ (String ((Ascii (true, true, true, true, false, true, true,
               false)), (String ((Ascii (false, true, true, true, false,
               true, true, false)), (String ((Ascii (true, false, true,
               false, true, false, true, false)), (String ((Ascii (false,
               false, false, false, true, true, true, false)), (String
               ((Ascii (false, false, true, false, false, true, true,
               false)), (String ((Ascii (true, false, false, false, false,
               true, true, false)), (String ((Ascii (false, false, true,
               false, true, true, true, false)), (String ((Ascii (true,
               false, true, false, false, true, true, false)), (String
               ((Ascii (false, true, false, true, true, true, false, false)),
               EmptyString))))))))))))))))))) v
         in
         (((mk_str n), (iset_insert n dyn0)), a.a_dynkeys)
       | Null ->
         (((mk_strS (String ((Ascii (true, true, true, true, false, true,
             true, false)), (String ((Ascii (false, true, true, true, false,
             true, true, false)), (String ((Ascii (true, false, true, false,
             true, false, true, false)), (String ((Ascii (false, false,
             false, false, true, true, true, false)), (String ((Ascii (false,
             false, true, false, false, true, true, false)), (String ((Ascii
             (true, false, false, false, false, true, true, false)), (String
             ((Ascii (false, false, true, false, true, true, true, false)),
             (String ((Ascii (true, false, true, false, false, true, true,
             false)), (String ((Ascii (false, true, false, true, true, true,
             false, false)), (String ((Ascii (true, false, true, true, false,
             true, true, false)), (String ((Ascii (true, true, true, true,
             false, true, true, false)), (String ((Ascii (false, false, true,
             false, false, true, true, false)), (String ((Ascii (true, false,
             true, false, false, true, true, false)), (String ((Ascii (false,
             false, true, true, false, true, true, false)), (String ((Ascii
             (false, true, true, false, true, false, true, false)), (String
             ((Ascii (true, false, false, false, false, true, true, false)),
             (String ((Ascii (false, false, true, true, false, true, true,
             false)), (String ((Ascii (true, false, true, false, true, true,
             true, false)), (String ((Ascii (true, false, true, false, false,
             true, true, false)),
             EmptyString))))))))))))))))))))))))))))))))))))))),
           (iset_insert
             (s_ (String ((Ascii (true, true, true, true, false, true, true,
               false)), (String ((Ascii (false, true, true, true, false,
               true, true, false)), (String ((Ascii (true, false, true,
               false, true, false, true, false)), (String ((Ascii (false,
               false, false, false, true, true, true, false)), (String
               ((Ascii (false, false, true, false, false, true, true,
               false)), (String ((Ascii (true, false, false, false, false,
               true, true, false)), (String ((Ascii (false, false, true,
               false, true, true, true, false)), (String ((Ascii (true,
               false, true, false, false, true, true, false)), (String
               ((Ascii (false, true, false, true, true, true, false, false)),
               (String ((Ascii (true, false, true, true, false, true, true,
               false)), (String ((Ascii (true, true, true, true, false, true,
               true, false)), (String ((Ascii (false, false, true, false,
               false, true, true, false)), (String ((Ascii (true, false,
               true, false, false, true, true, false)), (String ((Ascii
               (false, false, true, true, false, true, true, false)), (String
               ((Ascii (false, true, true, false, true, false, true, false)),
               (String ((Ascii (true, false, false, false, false, true, true,
               false)), (String ((Ascii (false, false, true, true, false,
               true, true, false)), (String ((Ascii (true, false, true,
               false, true, true, true, false)), (String ((Ascii (true,
               false, true, false, false, true, true, false)),
               EmptyString))))))))))))))))))))))))))))))))))))))) dyn0)),
           a.a_dynkeys)
       | _ ->
         (((Computed (Bin
           ((s_ (String ((Ascii (true, true, false, true, false, true, false,
              false)), EmptyString))),
           (mk_strS (String ((Ascii (true, true, true, true, false, true,
             true, false)), (String ((Ascii (false, true, true, true, false,
             true, true, false)), (String ((Ascii (true, false, true, false,
             true, false, true, false)), (String ((Ascii (false, false,
             false, false, true, true, true, false)), (String ((Ascii (false,
             false, true, false, false, true, true, false)), (String ((Ascii
             (true, false, false, false, false, true, true, false)), (String
             ((Ascii (false, false, true, false, true, true, true, false)),
             (String ((Ascii (true, false, true, false, false, true, true,
             false)), EmptyString))))))))))))))))), e))), dyn0), true))
    | None ->
      (((mk_strS (String ((Ascii (true, true, true, true, false, true, true,
          false)), (String ((Ascii (false, true, true, true, false, true,
          true, false)), (String ((Ascii (true, false, true, false, true,
          false, true, false)), (String ((Ascii (false, false, false, false,
          true, true, true, false)), (String ((Ascii (false, false, true,
          false, false, true, true, false)), (String ((Ascii (true, false,
          false, false, false, true, true, false)), (String ((Ascii (false,
          false, true, false, true, true, true, false)), (String ((Ascii
          (true, false, true, false, false, true, true, false)), (String
          ((Ascii (false, true, false, true, true, true, false, false)),
          (String ((Ascii (true, false, true, true, false, true, true,
          false)), (String ((Ascii (true, true, true, true, false, true,
          true, false)), (String ((Ascii (false, false, true, false, false,
          true, true, false)), (String ((Ascii (true, false, true, false,
          false, true, true, false)), (String ((Ascii (false, false, true,
          true, false, true, true, false)), (String ((Ascii (false, true,
          true, false, true, false, true, false)), (String ((Ascii (true,
          false, false, false, false, true, true, false)), (String ((Ascii
          (false, false, true, true, false, true, true, false)), (String
          ((Ascii (true, false, true, false, true, true, true, false)),
          (String ((Ascii (true, false, true, false, false, true, true,
          false)), EmptyString))))))))))))))))))))))))))))))))))))))),
        (iset_insert
          (s_ (String ((Ascii (true, true, true, true, false, true, true,
            false)), (String ((Ascii (false, true, true, true, false, true,
            true, false)), (String ((Ascii (true, false, true, false, true,
            false, true, false)), (String ((Ascii (false, false, false,
            false, true, true, true, false)), (String ((Ascii (false, false,
            true, false, false, true, true, false)), (String ((Ascii (true,
            false, false, false, false, true, true, false)), (String ((Ascii
            (false, false, true, false, true, true, true, false)), (String
            ((Ascii (true, false, true, false, false, true, true, false)),
            (String ((Ascii (false, true, false, true, true, true, false,
            false)), (String ((Ascii (true, false, true, true, false, true,
            true, false)), (String ((Ascii (true, true, true, true, false,
            true, true, false)), (String ((Ascii (false, false, true, false,
            false, true, true, false)), (String ((Ascii (true, false, true,
            false, false, true, true, false)), (String ((Ascii (false, false,
            true, true, false, true, true, false)), (String ((Ascii (false,
            true, true, false, true, false, true, false)), (String ((Ascii
            (true, false, false, false, false, true, true, false)), (String
            ((Ascii (false, false, true, true, false, true, true, false)),
            (String ((Ascii (true, false, true, false, true, true, true,
            false)), (String ((Ascii (true, false, true, false, false, true,
            true, false)), EmptyString)))))))))))))))))))))))))))))))))))))))
          dyn0)), a.a_dynkeys)
  in
  let (key, dyn1) = p0 in
  { a_props = (app props0 ((KV (key, (listener value))) :: [])); a_margs =
  a.a_margs; a_dyn = dyn1; a_dirs = dirs0; a_slots = a.a_slots; a_ref =
  a.a_ref; a_class = a.a_class; a_style = a.a_style; a_hyd = a.a_hyd;
  a_dynkeys = dk; a_st = a.a_st }

(** val step_directive : bool -> acc -> node -> node -> acc **)

let step_directive is_comp a name value =
  let (d, s) = parse_directive name value is_comp a.a_st in
  (match d with
   | DNormal (_, _, _, _) ->
     { a_props = a.a_props; a_margs = a.a_margs; a_dyn = a.a_dyn; a_dirs =
       (app a.a_dirs (d :: [])); a_slots = a.a_slots; a_ref = a.a_ref;
       a_class = a.a_class; a_style = a.a_style; a_hyd = a.a_hyd; a_dynkeys =
       a.a_dynkeys; a_st = s }
   | DText e ->
     { a_props =
       (app a.a_props
         ((kv_str
            (s_ (String ((Ascii (false, false, true, false, true, true, true,
              false)), (String ((Ascii (true, false, true, false, false,
              true, true, false)), (String ((Ascii (false, false, false,
              true, true, true, true, false)), (String ((Ascii (false, false,
              true, false, true, true, true, false)), (String ((Ascii (true,
              true, false, false, false, false, true, false)), (String
              ((Ascii (true, true, true, true, false, true, true, false)),
              (String ((Ascii (false, true, true, true, false, true, true,
              false)), (String ((Ascii (false, false, true, false, true,
              true, true, false)), (String ((Ascii (true, false, true, false,
              false, true, true, false)), (String ((Ascii (false, true, true,
              true, false, true, true, false)), (String ((Ascii (false,
              false, true, false, true, true, true, false)),
              EmptyString))))))))))))))))))))))) e) :: [])); a_margs =
       a.a_margs; a_dyn =
       (iset_insert
         (s_ (String ((Ascii (false, false, true, false, true, true, true,
           false)), (String ((Ascii (true, false, true, false, false, true,
           true, false)), (String ((Ascii (false, false, false, true, true,
           true, true, false)), (String ((Ascii (false, false, true, false,
           true, true, true, false)), (String ((Ascii (true, true, false,
           false, false, false, true, false)), (String ((Ascii (true, true,
           true, true, false, true, true, false)), (String ((Ascii (false,
           true, true, true, false, true, true, false)), (String ((Ascii
           (false, false, true, false, true, true, true, false)), (String
           ((Ascii (true, false, true, false, false, true, true, false)),
           (String ((Ascii (false, true, true, true, false, true, true,
           false)), (String ((Ascii (false, false, true, false, true, true,
           true, false)), EmptyString))))))))))))))))))))))) a.a_dyn);
       a_dirs = a.a_dirs; a_slots = a.a_slots; a_ref = a.a_ref; a_class =
       a.a_class; a_style = a.a_style; a_hyd = a.a_hyd; a_dynkeys =
       a.a_dynkeys; a_st = s }
   | DHtml e ->
     { a_props =
       (app a.a_props
         ((kv_str
            (s_ (String ((Ascii (true, false, false, true, false, true, true,
              false)), (String ((Ascii (false, true, true, true, false, true,
              true, false)), (String ((Ascii (false, true, true, true, false,
              true, true, false)), (String ((Ascii (true, false, true, false,
              false, true, true, false)), (String ((Ascii (false, true,
              false, false, true, true, true, false)), (String ((Ascii
              (false, false, false, true, false, false, true, false)),
              (String ((Ascii (false, false, true, false, true, false, true,
              false)), (String ((Ascii (true, false, true, true, false,
              false, true, false)), (String ((Ascii (false, false, true,
              true, false, false, true, false)),
              EmptyString))))))))))))))))))) e) :: [])); a_margs = a.a_margs;
       a_dyn =
       (iset_insert
         (s_ (String ((Ascii (true, false, false, true, false, true, true,
           false)), (String ((Ascii (false, true, true, true, false, true,
           true, false)), (String ((Ascii (false, true, true, true, false,
           true, true, false)), (String ((Ascii (true, false, true, false,
           false, true, true, false)), (String ((Ascii (false, true, false,
           false, true, true, true, false)), (String ((Ascii (false, false,
           false, true, false, false, true, false)), (String ((Ascii (false,
           false, true, false, true, false, true, false)), (String ((Ascii
           (true, false, true, true, false, false, true, false)), (String
           ((Ascii (false, false, true, true, false, false, true, false)),
           EmptyString))))))))))))))))))) a.a_dyn); a_dirs = a.a_dirs;
       a_slots = a.a_slots; a_ref = a.a_ref; a_class = a.a_class; a_style =
       a.a_style; a_hyd = a.a_hyd; a_dynkeys = a.a_dynkeys; a_st = s }
   | DVModel (argument, targ, modifiers, v) ->
     step_vmodel is_comp { a_props = a.a_props; a_margs = a.a_margs; a_dyn =
       a.a_dyn; a_dirs = a.a_dirs; a_slots = a.a_slots; a_ref = a.a_ref;
       a_class = a.a_class; a_style = a.a_style; a_hyd = a.a_hyd; a_dynkeys =
       a.a_dynkeys; a_st = s } argument targ modifiers v
   | DSlots e ->
     { a_props = a.a_props; a_margs = a.a_margs; a_dyn = a.a_dyn; a_dirs =
       a.a_dirs; a_slots = e; a_ref = a.a_ref; a_class = a.a_class; a_style =
       a.a_style; a_hyd = a.a_hyd; a_dynkeys = a.a_dynkeys; a_st = s })

(** val plain_attr_value : node -> node option **)

let plain_attr_value = function
| NScalar j -> (match j with
                | JNull -> Some (Bool true)
                | _ -> None)
| Str (v, _) -> Some (mk_str (transform_text v))
| JExprC e -> Some e
| _ -> None

(** val step_plain : env -> bool -> acc -> node -> node -> acc **)

let step_plain e =
  let o = e.e_opts in
  (fun is_comp a name value ->
  let attr_name = attr_name_str name in
  let ton =
    (&&) o.o_transform_on
      ((||)
        (sq (String ((Ascii (true, true, true, true, false, true, true,
          false)), (String ((Ascii (false, true, true, true, false, true,
          true, false)), EmptyString)))) attr_name)
        (sq (String ((Ascii (false, true, true, true, false, true, true,
          false)), (String ((Ascii (true, false, false, false, false, true,
          true, false)), (String ((Ascii (false, false, true, false, true,
          true, true, false)), (String ((Ascii (true, false, false, true,
          false, true, true, false)), (String ((Ascii (false, true, true,
          false, true, true, true, false)), (String ((Ascii (true, false,
          true, false, false, true, true, false)), (String ((Ascii (true,
          true, true, true, false, false, true, false)), (String ((Ascii
          (false, true, true, true, false, true, true, false)),
          EmptyString)))))))))))))))) attr_name))
  in
  let s = a.a_st in
  (match plain_attr_value value with
   | Some v ->
     let is_ref =
       sq (String ((Ascii (false, true, false, false, true, true, true,
         false)), (String ((Ascii (true, false, true, false, false, true,
         true, false)), (String ((Ascii (false, true, true, false, false,
         true, true, false)), EmptyString)))))) attr_name
     in
     let dynamic = (&&) (negb is_ref) (negb (attr_value_constant value)) in
     let hyd =
       (||) a.a_hyd
         ((&&)
           ((&&) ((&&) ((&&) dynamic (negb is_comp)) (is_on attr_name))
             (negb
               (eq_ignore_ascii_case attr_name
                 (s_ (String ((Ascii (true, true, true, true, false, true,
                   true, false)), (String ((Ascii (false, true, true, true,
                   false, true, true, false)), (String ((Ascii (true, true,
                   false, false, false, true, true, false)), (String ((Ascii
                   (false, false, true, true, false, true, true, false)),
                   (String ((Ascii (true, false, false, true, false, true,
                   true, false)), (String ((Ascii (true, true, false, false,
                   false, true, true, false)), (String ((Ascii (true, true,
                   false, true, false, true, true, false)),
                   EmptyString))))))))))))))))))
           (negb
             (sq (String ((Ascii (true, true, true, true, false, true, true,
               false)), (String ((Ascii (false, true, true, true, false,
               true, true, false)), (String ((Ascii (true, false, true,
               false, true, false, true, false)), (String ((Ascii (false,
               false, false, false, true, true, true, false)), (String
               ((Ascii (false, false, true, false, false, true, true,
               false)), (String ((Ascii (true, false, false, false, false,
               true, true, false)), (String ((Ascii (false, false, true,
               false, true, true, true, false)), (String ((Ascii (true,
               false, true, false, false, true, true, false)), (String
               ((Ascii (false, true, false, true, true, true, false, false)),
               (String ((Ascii (true, false, true, true, false, true, true,
               false)), (String ((Ascii (true, true, true, true, false, true,
               true, false)), (String ((Ascii (false, false, true, false,
               false, true, true, false)), (String ((Ascii (true, false,
               true, false, false, true, true, false)), (String ((Ascii
               (false, false, true, true, false, true, true, false)), (String
               ((Ascii (false, true, true, false, true, false, true, false)),
               (String ((Ascii (true, false, false, false, false, true, true,
               false)), (String ((Ascii (false, false, true, true, false,
               true, true, false)), (String ((Ascii (true, false, true,
               false, true, true, true, false)), (String ((Ascii (true,
               false, true, false, false, true, true, false)),
               EmptyString)))))))))))))))))))))))))))))))))))))) attr_name)))
     in
     let cls =
       (||) a.a_class
         ((&&)
           ((&&) dynamic
             (sq (String ((Ascii (true, true, false, false, false, true,
               true, false)), (String ((Ascii (false, false, true, true,
               false, true, true, false)), (String ((Ascii (true, false,
               false, false, false, true, true, false)), (String ((Ascii
               (true, true, false, false, true, true, true, false)), (String
               ((Ascii (true, true, false, false, true, true, true, false)),
               EmptyString)))))))))) attr_name)) (negb is_comp))
     in
     let sty =
       (||) a.a_style
         ((&&)
           ((&&) dynamic
             (sq (String ((Ascii (true, true, false, false, true, true, true,
               false)), (String ((Ascii (false, false, true, false, true,
               true, true, false)), (String ((Ascii (true, false, false,
               true, true, true, true, false)), (String ((Ascii (false,
               false, true, true, false, true, true, false)), (String ((Ascii
               (true, false, true, false, false, true, true, false)),
               EmptyString)))))))))) attr_name)) (negb is_comp))
     in
     let dyn =
       if dynamic
       then if (||)
                 ((||)
                   ((||)
                     ((||)
                       ((&&)
                         (sq (String ((Ascii (true, true, false, false,
                           false, true, true, false)), (String ((Ascii
                           (false, false, true, true, false, true, true,
                           false)), (String ((Ascii (true, false, false,
                           false, false, true, true, false)), (String ((Ascii
                           (true, true, false, false, true, true, true,
                           false)), (String ((Ascii (true, true, false,
                           false, true, true, true, false)),
                           EmptyString)))))))))) attr_name) (negb is_comp))
                       ((&&)
                         (sq (String ((Ascii (true, true, false, false, true,
                           true, true, false)), (String ((Ascii (false,
                           false, true, false, true, true, true, false)),
                           (String ((Ascii (true, false, false, true, true,
                           true, true, false)), (String ((Ascii (false,
                           false, true, true, false, true, true, false)),
                           (String ((Ascii (true, false, true, false, false,
                           true, true, false)), EmptyString))))))))))
                           attr_name) (negb is_comp)))
                     (sq (String ((Ascii (true, true, false, true, false,
                       true, true, false)), (String ((Ascii (true, false,
                       true, false, false, true, true, false)), (String
                       ((Ascii (true, false, false, true, true, true, true,
                       false)), EmptyString)))))) attr_name))
                   (sq (String ((Ascii (false, true, false, false, true,
                     true, true, false)), (String ((Ascii (true, false, true,
                     false, false, true, true, false)), (String ((Ascii
                     (false, true, true, false, false, true, true, false)),
                     EmptyString)))))) attr_name)) ton
            then a.a_dyn
            else iset_insert attr_name a.a_dyn
       else a.a_dyn
     in
     if ton
     then (match a.a_props with
           | [] ->
             let props = [] in
             let margs = a.a_margs in
             { a_props = props; a_margs =
             (app margs
               ((mk_call
                  (mk_ident
                    (s_ (String ((Ascii (true, true, true, true, true, false,
                      true, false)), (String ((Ascii (false, false, true,
                      false, true, true, true, false)), (String ((Ascii
                      (false, true, false, false, true, true, true, false)),
                      (String ((Ascii (true, false, false, false, false,
                      true, true, false)), (String ((Ascii (false, true,
                      true, true, false, true, true, false)), (String ((Ascii
                      (true, true, false, false, true, true, true, false)),
                      (String ((Ascii (false, true, true, false, false, true,
                      true, false)), (String ((Ascii (true, true, true, true,
                      false, true, true, false)), (String ((Ascii (false,
                      true, false, false, true, true, true, false)), (String
                      ((Ascii (true, false, true, true, false, true, true,
                      false)), (String ((Ascii (true, true, true, true,
                      false, false, true, false)), (String ((Ascii (false,
                      true, true, true, false, true, true, false)),
                      EmptyString))))))))))))))))))))))))) ton_ctx) (v :: [])) :: []));
             a_dyn = dyn; a_dirs = a.a_dirs; a_slots = a.a_slots; a_ref =
             ((||) a.a_ref is_ref); a_class = cls; a_style = sty; a_hyd =
             hyd; a_dynkeys = true; a_st = (set_ton true s) }
           | n :: l ->
             let props = [] in
             let margs = app a.a_margs ((flush_obj e (n :: l)) :: []) in
             { a_props = props; a_margs =
             (app margs
               ((mk_call
                  (mk_ident
                    (s_ (String ((Ascii (true, true, true, true, true, false,
                      true, false)), (String ((Ascii (false, false, true,
                      false, true, true, true, false)), (String ((Ascii
                      (false, true, false, false, true, true, true, false)),
                      (String ((Ascii (true, false, false, false, false,
                      true, true, false)), (String ((Ascii (false, true,
                      true, true, false, true, true, false)), (String ((Ascii
                      (true, true, false, false, true, true, true, false)),
                      (String ((Ascii (false, true, true, false, false, true,
                      true, false)), (String ((Ascii (true, true, true, true,
                      false, true, true, false)), (String ((Ascii (false,
                      true, false, false, true, true, true, false)), (String
                      ((Ascii (true, false, true, true, false, true, true,
                      false)), (String ((Ascii (true, true, true, true,
                      false, false, true, false)), (String ((Ascii (false,
                      true, true, true, false, true, true, false)),
                      EmptyString))))))))))))))))))))))))) ton_ctx) (v :: [])) :: []));
             a_dyn = dyn; a_dirs = a.a_dirs; a_slots = a.a_slots; a_ref =
             ((||) a.a_ref is_ref); a_class = cls; a_style = sty; a_hyd =
             hyd; a_dynkeys = true; a_st = (set_ton true s) })
     else { a_props = (app a.a_props ((kv_str attr_name v) :: [])); a_margs =
            a.a_margs; a_dyn = dyn; a_dirs = a.a_dirs; a_slots = a.a_slots;
            a_ref = ((||) a.a_ref is_ref); a_class = cls; a_style = sty;
            a_hyd = hyd; a_dynkeys = a.a_dynkeys; a_st = s }
   | None ->
     let attr_value = Null in
     let s0 = panic s in
     let is_ref =
       sq (String ((Ascii (false, true, false, false, true, true, true,
         false)), (String ((Ascii (true, false, true, false, false, true,
         true, false)), (String ((Ascii (false, true, true, false, false,
         true, true, false)), EmptyString)))))) attr_name
     in
     let dynamic = (&&) (negb is_ref) (negb (attr_value_constant value)) in
     let hyd =
       (||) a.a_hyd
         ((&&)
           ((&&) ((&&) ((&&) dynamic (negb is_comp)) (is_on attr_name))
             (negb
               (eq_ignore_ascii_case attr_name
                 (s_ (String ((Ascii (true, true, true, true, false, true,
                   true, false)), (String ((Ascii (false, true, true, true,
                   false, true, true, false)), (String ((Ascii (true, true,
                   false, false, false, true, true, false)), (String ((Ascii
                   (false, false, true, true, false, true, true, false)),
                   (String ((Ascii (true, false, false, true, false, true,
                   true, false)), (String ((Ascii (true, true, false, false,
                   false, true, true, false)), (String ((Ascii (true, true,
                   false, true, false, true, true, false)),
                   EmptyString))))))))))))))))))
           (negb
             (sq (String ((Ascii (true, true, true, true, false, true, true,
               false)), (String ((Ascii (false, true, true, true, false,
               true, true, false)), (String ((Ascii (true, false, true,
               false, true, false, true, false)), (String ((Ascii (false,
               false, false, false, true, true, true, false)), (String
               ((Ascii (false, false, true, false, false, true, true,
               false)), (String ((Ascii (true, false, false, false, false,
               true, true, false)), (String ((Ascii (false, false, true,
               false, true, true, true, false)), (String ((Ascii (true,
               false, true, false, false, true, true, false)), (String
               ((Ascii (false, true, false, true, true, true, false, false)),
               (String ((Ascii (true, false, true, true, false, true, true,
               false)), (String ((Ascii (true, true, true, true, false, true,
               true, false)), (String ((Ascii (false, false, true, false,
               false, true, true, false)), (String ((Ascii (true, false,
               true, false, false, true, true, false)), (String ((Ascii
               (false, false, true, true, false, true, true, false)), (String
               ((Ascii (false, true, true, false, true, false, true, false)),
               (String ((Ascii (true, false, false, false, false, true, true,
               false)), (String ((Ascii (false, false, true, true, false,
               true, true, false)), (String ((Ascii (true, false, true,
               false, true, true, true, false)), (String ((Ascii (true,
               false, true, false, false, true, true, false)),
               EmptyString)))))))))))))))))))))))))))))))))))))) attr_name)))
     in
     let cls =
       (||) a.a_class
         ((&&)
           ((&&) dynamic
             (sq (String ((Ascii (true, true, false, false, false, true,
               true, false)), (String ((Ascii (false, false, true, true,
               false, true, true, false)), (String ((Ascii (true, false,
               false, false, false, true, true, false)), (String ((Ascii
               (true, true, false, false, true, true, true, false)), (String
               ((Ascii (true, true, false, false, true, true, true, false)),
               EmptyString)))))))))) attr_name)) (negb is_comp))
     in
     let sty =
       (||) a.a_style
         ((&&)
           ((&&) dynamic
             (sq (String ((Ascii (true, true, false, false, true, true, true,
               false)), (String ((Ascii (false, false, true, false, true,
               true, true, false)), (String ((Ascii (true, false, false,
               true, true, true, true, false)), (String ((Ascii (false,
               false, true, true, false, true, true, false)), (String ((Ascii
               (true, false, true, false, false, true, true, false)),
               EmptyString)))))))))) attr_name)) (negb is_comp))
     in
     let dyn =
       if dynamic
       then if (||)
                 ((||)
                   ((||)
                     ((||)
                       ((&&)
                         (sq (String ((Ascii (true, true, false, false,
                           false, true, true, false)), (String ((Ascii
                           (false, false, true, true, false, true, true,
                           false)), (String ((Ascii (true, false, false,
                           false, false, true, true, false)), (String ((Ascii
                           (true, true, false, false, true, true, true,
                           false)), (String ((Ascii (true, true, false,
                           false, true, true, true, false)),
                           EmptyString)))))))))) attr_name) (negb is_comp))
                       ((&&)
                         (sq (String ((Ascii (true, true, false, false, true,
                           true, true, false)), (String ((Ascii (false,
                           false, true, false, true, true, true, false)),
                           (String ((Ascii (true, false, false, true, true,
                           true, true, false)), (String ((Ascii (false,
                           false, true, true, false, true, true, false)),
                           (String ((Ascii (true, false, true, false, false,
                           true, true, false)), EmptyString))))))))))
                           attr_name) (negb is_comp)))
                     (sq (String ((Ascii (true, true, false, true, false,
                       true, true, false)), (String ((Ascii (true, false,
                       true, false, false, true, true, false)), (String
                       ((Ascii (true, false, false, true, true, true, true,
                       false)), EmptyString)))))) attr_name))
                   (sq (String ((Ascii (false, true, false, false, true,
                     true, true, false)), (String ((Ascii (true, false, true,
                     false, false, true, true, false)), (String ((Ascii
                     (false, true, true, false, false, true, true, false)),
                     EmptyString)))))) attr_name)) ton
            then a.a_dyn
            else iset_insert attr_name a.a_dyn
       else a.a_dyn
     in
     if ton
     then (match a.a_props with
           | [] ->
             let props = [] in
             let margs = a.a_margs in
             { a_props = props; a_margs =
             (app margs
               ((mk_call
                  (mk_ident
                    (s_ (String ((Ascii (true, true, true, true, true, false,
                      true, false)), (String ((Ascii (false, false, true,
                      false, true, true, true, false)), (String ((Ascii
                      (false, true, false, false, true, true, true, false)),
                      (String ((Ascii (true, false, false, false, false,
                      true, true, false)), (String ((Ascii (false, true,
                      true, true, false, true, true, false)), (String ((Ascii
                      (true, true, false, false, true, true, true, false)),
                      (String ((Ascii (false, true, true, false, false, true,
                      true, false)), (String ((Ascii (true, true, true, true,
                      false, true, true, false)), (String ((Ascii (false,
                      true, false, false, true, true, true, false)), (String
                      ((Ascii (true, false, true, true, false, true, true,
                      false)), (String ((Ascii (true, true, true, true,
                      false, false, true, false)), (String ((Ascii (false,
                      true, true, true, false, true, true, false)),
                      EmptyString))))))))))))))))))))))))) ton_ctx)
                  (attr_value :: [])) :: [])); a_dyn = dyn; a_dirs =
             a.a_dirs; a_slots = a.a_slots; a_ref = ((||) a.a_ref is_ref);
             a_class = cls; a_style = sty; a_hyd = hyd; a_dynkeys = true;
             a_st = (set_ton true s0) }
           | n :: l ->
             let props = [] in
             let margs = app a.a_margs ((flush_obj e (n :: l)) :: []) in
             { a_props = props; a_margs =
             (app margs
               ((mk_call
                  (mk_ident
                    (s_ (String ((Ascii (true, true, true, true, true, false,
                      true, false)), (String ((Ascii (false, false, true,
                      false, true, true, true, false)), (String ((Ascii
                      (false, true, false, false, true, true, true, false)),
                      (String ((Ascii (true, false, false, false, false,
                      true, true, false)), (String ((Ascii (false, true,
                      true, true, false, true, true, false)), (String ((Ascii
                      (true, true, false, false, true, true, true, false)),
                      (String ((Ascii (false, true, true, false, false, true,
                      true, false)), (String ((Ascii (true, true, true, true,
                      false, true, true, false)), (String ((Ascii (false,
                      true, false, false, true, true, true, false)), (String
                      ((Ascii (true, false, true, true, false, true, true,
                      false)), (String ((Ascii (true, true, true, true,
                      false, false, true, false)), (String ((Ascii (false,
                      true, true, true, false, true, true, false)),
                      EmptyString))))))))))))))))))))))))) ton_ctx)
                  (attr_value :: [])) :: [])); a_dyn = dyn; a_dirs =
             a.a_dirs; a_slots = a.a_slots; a_ref = ((||) a.a_ref is_ref);
             a_class = cls; a_style = sty; a_hyd = hyd; a_dynkeys = true;
             a_st = (set_ton true s0) })
     else { a_props = (app a.a_props ((kv_str attr_name attr_value) :: []));
            a_margs = a.a_margs; a_dyn = dyn; a_dirs = a.a_dirs; a_slots =
            a.a_slots; a_ref = ((||) a.a_ref is_ref); a_class = cls;
            a_style = sty; a_hyd = hyd; a_dynkeys = a.a_dynkeys; a_st = s0 }))

(** val step_spread : env -> acc -> node -> acc **)

let step_spread e =
  let o = e.e_opts in
  (fun a e0 ->
  let (props, margs) =
    match a.a_props with
    | [] -> ([], a.a_margs)
    | n :: l ->
      let ps = n :: l in
      if o.o_merge_props
      then ([], (app a.a_margs ((Obj (dedupe_props ps)) :: [])))
      else (ps, a.a_margs)
  in
  (match e0 with
   | NScalar _ ->
     if o.o_merge_props
     then let margs0 = app margs (e0 :: []) in
          { a_props = props; a_margs = margs0; a_dyn = a.a_dyn; a_dirs =
          a.a_dirs; a_slots = a.a_slots; a_ref = a.a_ref; a_class =
          a.a_class; a_style = a.a_style; a_hyd = a.a_hyd; a_dynkeys = true;
          a_st = a.a_st }
     else let props0 = app props ((Spread e0) :: []) in
          { a_props = props0; a_margs = margs; a_dyn = a.a_dyn; a_dirs =
          a.a_dirs; a_slots = a.a_slots; a_ref = a.a_ref; a_class =
          a.a_class; a_style = a.a_style; a_hyd = a.a_hyd; a_dynkeys = true;
          a_st = a.a_st }
   | Obj ps ->
     if o.o_merge_props
     then let margs0 = app margs (e0 :: []) in
          { a_props = props; a_margs = margs0; a_dyn = a.a_dyn; a_dirs =
          a.a_dirs; a_slots = a.a_slots; a_ref = a.a_ref; a_class =
          a.a_class; a_style = a.a_style; a_hyd = a.a_hyd; a_dynkeys = true;
          a_st = a.a_st }
     else let props0 = app props ps in
          { a_props = props0; a_margs = margs; a_dyn = a.a_dyn; a_dirs =
          a.a_dirs; a_slots = a.a_slots; a_ref = a.a_ref; a_class =
          a.a_class; a_style = a.a_style; a_hyd = a.a_hyd; a_dynkeys = true;
          a_st = a.a_st }
   | _ ->
     if o.o_merge_props
     then let margs0 = app margs (e0 :: []) in
          { a_props = props; a_margs = margs0; a_dyn = a.a_dyn; a_dirs =
          a.a_dirs; a_slots = a.a_slots; a_ref = a.a_ref; a_class =
          a.a_class; a_style = a.a_style; a_hyd = a.a_hyd; a_dynkeys = true;
          a_st = a.a_st }
     else let props0 = app props ((Spread e0) :: []) in
          { a_props = props0; a_margs = margs; a_dyn = a.a_dyn; a_dirs =
          a.a_dirs; a_slots = a.a_slots; a_ref = a.a_ref; a_class =
          a.a_class; a_style = a.a_style; a_hyd = a.a_hyd; a_dynkeys = true;
          a_st = a.a_st }))

(** val attr_step : env -> bool -> acc -> node -> acc **)

let attr_step e is_comp a attr = match attr with
| Spread e0 -> step_spread e a e0
| JAttr (name, value) ->
  if is_directive attr
  then step_directive is_comp a name value
  else step_plain e is_comp a name value
| _ -> a

(** val has_flag : coq_N -> coq_N -> bool **)

let has_flag f b =
  negb (N.eqb (N.coq_land f b) N0)

(** val compute_flags : acc -> coq_N **)

let compute_flags a =
  let f =
    if a.a_dynkeys
    then coq_PF_FULL_PROPS
    else N.add
           (N.add
             (N.add (if a.a_class then coq_PF_CLASS else N0)
               (if a.a_style then coq_PF_STYLE else N0))
             (match a.a_dyn with
              | [] -> N0
              | _ :: _ -> coq_PF_PROPS))
           (if a.a_hyd then coq_PF_HYDRATE_EVENTS else N0)
  in
  if (&&) ((||) (N.eqb f N0) (N.eqb f coq_PF_HYDRATE_EVENTS))
       ((||) a.a_ref (match a.a_dirs with
                      | [] -> false
                      | _ :: _ -> true))
  then N.add f coq_PF_NEED_PATCH
  else f

type attrs_result = { r_attrs : node; r_flags : coq_N;
                      r_dyn : str list option; r_slots : node option;
                      r_dirs : directive list; r_st : st }

(** val final_attrs_expr : env -> acc -> node * st **)

let final_attrs_expr e a =
  match a.a_margs with
  | [] ->
    (match a.a_props with
     | [] -> (Null, a.a_st)
     | n :: l ->
       (match n with
        | Spread e0 ->
          (match l with
           | [] -> (e0, a.a_st)
           | n0 :: l0 -> ((flush_obj e ((Spread e0) :: (n0 :: l0))), a.a_st))
        | x -> ((flush_obj e (x :: l)), a.a_st)))
  | _ :: _ ->
    let margs =
      match a.a_props with
      | [] -> a.a_margs
      | n :: l -> app a.a_margs ((flush_obj e (n :: l)) :: [])
    in
    (match margs with
     | [] ->
       let (h, s) =
         import_from_vue (String ((Ascii (true, false, true, true, false,
           true, true, false)), (String ((Ascii (true, false, true, false,
           false, true, true, false)), (String ((Ascii (false, true, false,
           false, true, true, true, false)), (String ((Ascii (true, true,
           true, false, false, true, true, false)), (String ((Ascii (true,
           false, true, false, false, true, true, false)), (String ((Ascii
           (false, false, false, false, true, false, true, false)), (String
           ((Ascii (false, true, false, false, true, true, true, false)),
           (String ((Ascii (true, true, true, true, false, true, true,
           false)), (String ((Ascii (false, false, false, false, true, true,
           true, false)), (String ((Ascii (true, true, false, false, true,
           true, true, false)), EmptyString)))))))))))))))))))) a.a_st
       in
       ((mk_call h margs), s)
     | e0 :: l ->
       (match l with
        | [] -> (e0, a.a_st)
        | _ :: _ ->
          let (h, s) =
            import_from_vue (String ((Ascii (true, false, true, true, false,
              true, true, false)), (String ((Ascii (true, false, true, false,
              false, true, true, false)), (String ((Ascii (false, true,
              false, false, true, true, true, false)), (String ((Ascii (true,
              true, true, false, false, true, true, false)), (String ((Ascii
              (true, false, true, false, false, true, true, false)), (String
              ((Ascii (false, false, false, false, true, false, true,
              false)), (String ((Ascii (false, true, false, false, true,
              true, true, false)), (String ((Ascii (true, true, true, true,
              false, true, true, false)), (String ((Ascii (false, false,
              false, false, true, true, true, false)), (String ((Ascii (true,
              true, false, false, true, true, true, false)),
              EmptyString)))))))))))))))))))) a.a_st
          in
          ((mk_call h margs), s)))

(** val transform_attrs : env -> node list -> bool -> st -> attrs_result **)

let transform_attrs e attrs is_comp s =
  match attrs with
  | [] ->
    { r_attrs = Null; r_flags = N0; r_dyn = None; r_slots = None; r_dirs =
      []; r_st = s }
  | _ :: _ ->
    let a =
      fold_left (attr_step e is_comp) attrs { a_props = []; a_margs = [];
        a_dyn = []; a_dirs = []; a_slots = None; a_ref = false; a_class =
        false; a_style = false; a_hyd = false; a_dynkeys = false; a_st = s }
    in
    let (expr, s0) = final_attrs_expr e a in
    { r_attrs = expr; r_flags = (compute_flags a); r_dyn = (Some a.a_dyn);
    r_slots = a.a_slots; r_dirs = a.a_dirs; r_st = s0 }

(** val slot_flag_num : bool -> coq_N **)

let slot_flag_num = function
| true -> coq_SF_Dynamic
| false -> coq_SF_Stable

(** val merge_slots : node list -> node option -> node list **)

let merge_slots props = function
| Some e ->
  (match e with
   | Obj sp -> app props sp
   | _ -> app props ((Spread e) :: []))
| None -> props

(** val hint_prop : env -> bool -> node list **)

let hint_prop e =
  let o = e.e_opts in
  (fun flag ->
  if o.o_optimize
  then (KV ((IdName
         (s_ (String ((Ascii (true, true, true, true, true, false, true,
           false)), EmptyString)))), (mk_num (slot_flag_num flag)))) :: []
  else [])

(** val wrap_children : env -> node list -> bool -> node option -> node **)

let wrap_children e elems flag slots =
  Obj
    (app
      (merge_slots ((KV ((IdName
        (s_ (String ((Ascii (false, false, true, false, false, true, true,
          false)), (String ((Ascii (true, false, true, false, false, true,
          true, false)), (String ((Ascii (false, true, true, false, false,
          true, true, false)), (String ((Ascii (true, false, false, false,
          false, true, true, false)), (String ((Ascii (true, false, true,
          false, true, true, true, false)), (String ((Ascii (false, false,
          true, true, false, true, true, false)), (String ((Ascii (false,
          false, true, false, true, true, true, false)),
          EmptyString)))))))))))))))), (mk_arrow [] (Arr elems)))) :: [])
        slots) (hint_prop e flag))

(** val mk_capture : node -> coq_N -> str -> node **)

let mk_capture id name_ctx sym =
  mk_declarator
    (mk_bident ((Npos (Coq_xI (Coq_xI (Coq_xI (Coq_xI (Coq_xI (Coq_xO
      Coq_xH))))))) :: sym) name_ctx) (Call (true, N0,
    (mk_fn_expr [] (Block (N0, ((mk_return id) :: [])))), [], nnull))

(** val build_iife_elems : str -> node list -> st -> node list * st **)

let rec build_iife_elems lft elems s =
  match elems with
  | [] -> ([], s)
  | el :: r ->
    (match el with
     | Elem (spread, id) ->
       if spread
       then let (r', s0) = build_iife_elems lft r s in ((el :: r'), s0)
       else (match id with
             | Ident (sym, _, _) ->
               if str_eqb sym lft
               then let (p, s0) =
                      fresh_ident ((Npos (Coq_xI (Coq_xI (Coq_xI (Coq_xI
                        (Coq_xI (Coq_xO Coq_xH))))))) :: sym) s
                    in
                    let (nm, ctx) = p in
                    let s1 =
                      set_inj_consts
                        (app s0.inj_consts ((mk_capture id ctx sym) :: [])) s0
                    in
                    let (r', s2) = build_iife_elems lft r s1 in
                    (((Elem (false, nm)) :: r'), s2)
               else let (r', s0) = build_iife_elems lft r s in
                    ((el :: r'), s0)
             | _ ->
               let (r', s0) = build_iife_elems lft r s in ((el :: r'), s0))
     | _ -> let (r', s0) = build_iife_elems lft r s in ((el :: r'), s0))

(** val build_iife : node list -> st -> node list * st **)

let build_iife elems s =
  match s.assign_left with
  | Some lft -> build_iife_elems lft elems (set_assign_left None s)
  | None -> (elems, s)

(** val generate_unique_slot_ident : st -> node * st **)

let generate_unique_slot_ident s =
  let sym =
    if N.eqb s.slot_counter (Npos Coq_xH)
    then s_ (String ((Ascii (true, true, true, true, true, false, true,
           false)), (String ((Ascii (true, true, false, false, true, true,
           true, false)), (String ((Ascii (false, false, true, true, false,
           true, true, false)), (String ((Ascii (true, true, true, true,
           false, true, true, false)), (String ((Ascii (false, false, true,
           false, true, true, true, false)), EmptyString))))))))))
    else app
           (s_ (String ((Ascii (true, true, true, true, true, false, true,
             false)), (String ((Ascii (true, true, false, false, true, true,
             true, false)), (String ((Ascii (false, false, true, true, false,
             true, true, false)), (String ((Ascii (true, true, true, true,
             false, true, true, false)), (String ((Ascii (false, false, true,
             false, true, true, true, false)), EmptyString)))))))))))
           (dec_of_N s.slot_counter)
  in
  let (p, s0) = fresh_ident sym s in
  let (id, ctx) = p in
  let s1 =
    set_inj_vars
      (app s0.inj_vars ((mk_declarator (mk_bident sym ctx) nnull) :: [])) s0
  in
  (id, (set_slot_counter (N.add s1.slot_counter (Npos Coq_xH)) s1))

(** val slot_helper_ident : node **)

let slot_helper_ident =
  mk_ident
    (s_ (String ((Ascii (true, true, true, true, true, false, true, false)),
      (String ((Ascii (true, false, false, true, false, true, true, false)),
      (String ((Ascii (true, true, false, false, true, true, true, false)),
      (String ((Ascii (true, true, false, false, true, false, true, false)),
      (String ((Ascii (false, false, true, true, false, true, true, false)),
      (String ((Ascii (true, true, true, true, false, true, true, false)),
      (String ((Ascii (false, false, true, false, true, true, true, false)),
      EmptyString))))))))))))))) slot_helper_ctx

(** val is_fn_like : node -> bool **)

let is_fn_like e = match e with
| NObj _ ->
  sq (String ((Ascii (false, true, true, false, false, false, true, false)),
    (String ((Ascii (true, false, true, false, true, true, true, false)),
    (String ((Ascii (false, true, true, true, false, true, true, false)),
    (String ((Ascii (true, true, false, false, false, true, true, false)),
    (String ((Ascii (false, false, true, false, true, true, true, false)),
    (String ((Ascii (true, false, false, true, false, true, true, false)),
    (String ((Ascii (true, true, true, true, false, true, true, false)),
    (String ((Ascii (false, true, true, true, false, true, true, false)),
    (String ((Ascii (true, false, true, false, false, false, true, false)),
    (String ((Ascii (false, false, false, true, true, true, true, false)),
    (String ((Ascii (false, false, false, false, true, true, true, false)),
    (String ((Ascii (false, true, false, false, true, true, true, false)),
    (String ((Ascii (true, false, true, false, false, true, true, false)),
    (String ((Ascii (true, true, false, false, true, true, true, false)),
    (String ((Ascii (true, true, false, false, true, true, true, false)),
    (String ((Ascii (true, false, false, true, false, true, true, false)),
    (String ((Ascii (true, true, true, true, false, true, true, false)),
    (String ((Ascii (false, true, true, true, false, true, true, false)),
    EmptyString)))))))))))))))))))))))))))))))))))) (ntype e)
| Arrow (_, _, _, _, _, _, _) -> true
| _ -> false

(** val is_bound_ident : env -> node -> bool **)

let is_bound_ident e = function
| Ident (_, c, _) -> negb (N.eqb c e.e_unres)
| _ -> false

(** val mark_dynamic : env -> node -> st -> st **)

let mark_dynamic e =
  let o = e.e_opts in
  (fun e0 s ->
  if (&&) o.o_optimize (is_bound_ident e e0)
  then set_slot_stack (map (fun _ -> true) s.slot_stack) s
  else s)

(** val transform_jsx_text : str -> st -> node option * st **)

let transform_jsx_text v s =
  match transform_text v with
  | [] -> (None, s)
  | n :: l ->
    let (h, s0) =
      import_from_vue (String ((Ascii (true, true, false, false, false, true,
        true, false)), (String ((Ascii (false, true, false, false, true,
        true, true, false)), (String ((Ascii (true, false, true, false,
        false, true, true, false)), (String ((Ascii (true, false, false,
        false, false, true, true, false)), (String ((Ascii (false, false,
        true, false, true, true, true, false)), (String ((Ascii (true, false,
        true, false, false, true, true, false)), (String ((Ascii (false,
        false, true, false, true, false, true, false)), (String ((Ascii
        (true, false, true, false, false, true, true, false)), (String
        ((Ascii (false, false, false, true, true, true, true, false)),
        (String ((Ascii (false, false, true, false, true, true, true,
        false)), (String ((Ascii (false, true, true, false, true, false,
        true, false)), (String ((Ascii (false, true, true, true, false,
        false, true, false)), (String ((Ascii (true, true, true, true, false,
        true, true, false)), (String ((Ascii (false, false, true, false,
        false, true, true, false)), (String ((Ascii (true, false, true,
        false, false, true, true, false)),
        EmptyString)))))))))))))))))))))))))))))) s
    in
    ((Some (mk_call h ((mk_str (n :: l)) :: []))), s0)

(** val finish_children :
    env -> node list -> bool -> node option -> st -> node * st **)

let finish_children e =
  let o = e.e_opts in
  (fun elems is_comp slots s ->
  if o.o_optimize
  then (match rev s.slot_stack with
        | [] ->
          let flag = false in
          let default = fun s0 ->
            if is_comp
            then ((wrap_children e elems flag slots), s0)
            else ((Arr elems), s0)
          in
          (match elems with
           | [] -> ((match slots with
                     | Some e0 -> e0
                     | None -> Null), s)
           | n :: l ->
             (match n with
              | Elem (spread, e0) ->
                if spread
                then default s
                else (match l with
                      | [] ->
                        (match e0 with
                         | Ident (_, _, _) ->
                           if is_comp
                           then let (elems', s0) = build_iife elems s in
                                if o.o_object_slots
                                then ((Cond
                                       ((mk_call slot_helper_ident (e0 :: [])),
                                       e0,
                                       (wrap_children e elems' flag slots))),
                                       (set_slot_helper true s0))
                                else ((wrap_children e elems' flag slots), s0)
                           else default s
                         | Obj props ->
                           ((Obj
                             (app (merge_slots props slots)
                               (hint_prop e flag))), s)
                         | Call (syn, _, _, _, _) ->
                           if syn
                           then if is_fn_like e0
                                then ((Obj
                                       (merge_slots ((KV ((IdName
                                         (s_ (String ((Ascii (false, false,
                                           true, false, false, true, true,
                                           false)), (String ((Ascii (true,
                                           false, true, false, false, true,
                                           true, false)), (String ((Ascii
                                           (false, true, true, false, false,
                                           true, true, false)), (String
                                           ((Ascii (true, false, false,
                                           false, false, true, true, false)),
                                           (String ((Ascii (true, false,
                                           true, false, true, true, true,
                                           false)), (String ((Ascii (false,
                                           false, true, true, false, true,
                                           true, false)), (String ((Ascii
                                           (false, false, true, false, true,
                                           true, true, false)),
                                           EmptyString)))))))))))))))),
                                         e0)) :: []) slots)), s)
                                else default s
                           else if is_comp
                                then if o.o_object_slots
                                     then let (slot, s0) =
                                            generate_unique_slot_ident s
                                          in
                                          let (elems', s1) =
                                            build_iife ((Elem (false,
                                              slot)) :: [])
                                              (set_slot_helper true s0)
                                          in
                                          ((Cond
                                          ((mk_call slot_helper_ident
                                             ((Assign
                                             ((s_ (String ((Ascii (true,
                                                false, true, true, true,
                                                true, false, false)),
                                                EmptyString))), (Paren slot),
                                             e0)) :: [])), slot,
                                          (wrap_children e elems' flag slots))),
                                          s1)
                                     else ((wrap_children e elems flag slots),
                                            s)
                                else default s
                         | _ ->
                           if is_fn_like e0
                           then ((Obj
                                  (merge_slots ((KV ((IdName
                                    (s_ (String ((Ascii (false, false, true,
                                      false, false, true, true, false)),
                                      (String ((Ascii (true, false, true,
                                      false, false, true, true, false)),
                                      (String ((Ascii (false, true, true,
                                      false, false, true, true, false)),
                                      (String ((Ascii (true, false, false,
                                      false, false, true, true, false)),
                                      (String ((Ascii (true, false, true,
                                      false, true, true, true, false)),
                                      (String ((Ascii (false, false, true,
                                      true, false, true, true, false)),
                                      (String ((Ascii (false, false, true,
                                      false, true, true, true, false)),
                                      EmptyString)))))))))))))))),
                                    e0)) :: []) slots)), s)
                           else default s)
                      | _ :: _ -> default s)
              | _ -> default s))
        | top :: rest ->
          let s0 = set_slot_stack (rev rest) s in
          let default = fun s1 ->
            if is_comp
            then ((wrap_children e elems top slots), s1)
            else ((Arr elems), s1)
          in
          (match elems with
           | [] -> ((match slots with
                     | Some e0 -> e0
                     | None -> Null), s0)
           | n :: l ->
             (match n with
              | Elem (spread, e0) ->
                if spread
                then default s0
                else (match l with
                      | [] ->
                        (match e0 with
                         | Ident (_, _, _) ->
                           if is_comp
                           then let (elems', s1) = build_iife elems s0 in
                                if o.o_object_slots
                                then ((Cond
                                       ((mk_call slot_helper_ident (e0 :: [])),
                                       e0,
                                       (wrap_children e elems' top slots))),
                                       (set_slot_helper true s1))
                                else ((wrap_children e elems' top slots), s1)
                           else default s0
                         | Obj props ->
                           ((Obj
                             (app (merge_slots props slots) (hint_prop e top))),
                             s0)
                         | Call (syn, _, _, _, _) ->
                           if syn
                           then if is_fn_like e0
                                then ((Obj
                                       (merge_slots ((KV ((IdName
                                         (s_ (String ((Ascii (false, false,
                                           true, false, false, true, true,
                                           false)), (String ((Ascii (true,
                                           false, true, false, false, true,
                                           true, false)), (String ((Ascii
                                           (false, true, true, false, false,
                                           true, true, false)), (String
                                           ((Ascii (true, false, false,
                                           false, false, true, true, false)),
                                           (String ((Ascii (true, false,
                                           true, false, true, true, true,
                                           false)), (String ((Ascii (false,
                                           false, true, true, false, true,
                                           true, false)), (String ((Ascii
                                           (false, false, true, false, true,
                                           true, true, false)),
                                           EmptyString)))))))))))))))),
                                         e0)) :: []) slots)), s0)
                                else default s0
                           else if is_comp
                                then if o.o_object_slots
                                     then let (slot, s1) =
                                            generate_unique_slot_ident s0
                                          in
                                          let (elems', s2) =
                                            build_iife ((Elem (false,
                                              slot)) :: [])
                                              (set_slot_helper true s1)
                                          in
                                          ((Cond
                                          ((mk_call slot_helper_ident
                                             ((Assign
                                             ((s_ (String ((Ascii (true,
                                                false, true, true, true,
                                                true, false, false)),
                                                EmptyString))), (Paren slot),
                                             e0)) :: [])), slot,
                                          (wrap_children e elems' top slots))),
                                          s2)
                                     else ((wrap_children e elems top slots),
                                            s0)
                                else default s0
                         | _ ->
                           if is_fn_like e0
                           then ((Obj
                                  (merge_slots ((KV ((IdName
                                    (s_ (String ((Ascii (false, false, true,
                                      false, false, true, true, false)),
                                      (String ((Ascii (true, false, true,
                                      false, false, true, true, false)),
                                      (String ((Ascii (false, true, true,
                                      false, false, true, true, false)),
                                      (String ((Ascii (true, false, false,
                                      false, false, true, true, false)),
                                      (String ((Ascii (true, false, true,
                                      false, true, true, true, false)),
                                      (String ((Ascii (false, false, true,
                                      true, false, true, true, false)),
                                      (String ((Ascii (false, false, true,
                                      false, true, true, true, false)),
                                      EmptyString)))))))))))))))),
                                    e0)) :: []) slots)), s0)
                           else default s0)
                      | _ :: _ -> default s0)
              | _ -> default s0)))
  else let flag = false in
       let default = fun s0 ->
         if is_comp
         then ((wrap_children e elems flag slots), s0)
         else ((Arr elems), s0)
       in
       (match elems with
        | [] -> ((match slots with
                  | Some e0 -> e0
                  | None -> Null), s)
        | n :: l ->
          (match n with
           | Elem (spread, e0) ->
             if spread
             then default s
             else (match l with
                   | [] ->
                     (match e0 with
                      | Ident (_, _, _) ->
                        if is_comp
                        then let (elems', s0) = build_iife elems s in
                             if o.o_object_slots
                             then ((Cond
                                    ((mk_call slot_helper_ident (e0 :: [])),
                                    e0,
                                    (wrap_children e elems' flag slots))),
                                    (set_slot_helper true s0))
                             else ((wrap_children e elems' flag slots), s0)
                        else default s
                      | Obj props ->
                        ((Obj
                          (app (merge_slots props slots) (hint_prop e flag))),
                          s)
                      | Call (syn, _, _, _, _) ->
                        if syn
                        then if is_fn_like e0
                             then ((Obj
                                    (merge_slots ((KV ((IdName
                                      (s_ (String ((Ascii (false, false,
                                        true, false, false, true, true,
                                        false)), (String ((Ascii (true,
                                        false, true, false, false, true,
                                        true, false)), (String ((Ascii
                                        (false, true, true, false, false,
                                        true, true, false)), (String ((Ascii
                                        (true, false, false, false, false,
                                        true, true, false)), (String ((Ascii
                                        (true, false, true, false, true,
                                        true, true, false)), (String ((Ascii
                                        (false, false, true, true, false,
                                        true, true, false)), (String ((Ascii
                                        (false, false, true, false, true,
                                        true, true, false)),
                                        EmptyString)))))))))))))))),
                                      e0)) :: []) slots)), s)
                             else default s
                        else if is_comp
                             then if o.o_object_slots
                                  then let (slot, s0) =
                                         generate_unique_slot_ident s
                                       in
                                       let (elems', s1) =
                                         build_iife ((Elem (false,
                                           slot)) :: [])
                                           (set_slot_helper true s0)
                                       in
                                       ((Cond
                                       ((mk_call slot_helper_ident ((Assign
                                          ((s_ (String ((Ascii (true, false,
                                             true, true, true, true, false,
                                             false)), EmptyString))), (Paren
                                          slot), e0)) :: [])), slot,
                                       (wrap_children e elems' flag slots))),
                                       s1)
                                  else ((wrap_children e elems flag slots), s)
                             else default s
                      | _ ->
                        if is_fn_like e0
                        then ((Obj
                               (merge_slots ((KV ((IdName
                                 (s_ (String ((Ascii (false, false, true,
                                   false, false, true, true, false)), (String
                                   ((Ascii (true, false, true, false, false,
                                   true, true, false)), (String ((Ascii
                                   (false, true, true, false, false, true,
                                   true, false)), (String ((Ascii (true,
                                   false, false, false, false, true, true,
                                   false)), (String ((Ascii (true, false,
                                   true, false, true, true, true, false)),
                                   (String ((Ascii (false, false, true, true,
                                   false, true, true, false)), (String
                                   ((Ascii (false, false, true, false, true,
                                   true, true, false)),
                                   EmptyString)))))))))))))))), e0)) :: [])
                                 slots)), s)
                        else default s)
                   | _ :: _ -> default s)
           | _ -> default s)))

(** val resolve_directive : str -> node -> node list -> st -> node * st **)

let resolve_directive dname tag attrs s =
  if sq (String ((Ascii (true, true, false, false, true, true, true, false)),
       (String ((Ascii (false, false, false, true, false, true, true,
       false)), (String ((Ascii (true, true, true, true, false, true, true,
       false)), (String ((Ascii (true, true, true, false, true, true, true,
       false)), EmptyString)))))))) dname
  then import_from_vue (String ((Ascii (false, true, true, false, true, true,
         true, false)), (String ((Ascii (true, true, false, false, true,
         false, true, false)), (String ((Ascii (false, false, false, true,
         false, true, true, false)), (String ((Ascii (true, true, true, true,
         false, true, true, false)), (String ((Ascii (true, true, true,
         false, true, true, true, false)), EmptyString)))))))))) s
  else if sq (String ((Ascii (true, false, true, true, false, true, true,
            false)), (String ((Ascii (true, true, true, true, false, true,
            true, false)), (String ((Ascii (false, false, true, false, false,
            true, true, false)), (String ((Ascii (true, false, true, false,
            false, true, true, false)), (String ((Ascii (false, false, true,
            true, false, true, true, false)), EmptyString)))))))))) dname
       then (match tag with
             | NScalar _ ->
               let typ =
                 let rec find = function
                 | [] -> None
                 | n :: r ->
                   (match n with
                    | JAttr (name, v) ->
                      (match name with
                       | IdName k ->
                         if (&&)
                              (sq (String ((Ascii (false, false, true, false,
                                true, true, true, false)), (String ((Ascii
                                (true, false, false, true, true, true, true,
                                false)), (String ((Ascii (false, false,
                                false, false, true, true, true, false)),
                                (String ((Ascii (true, false, true, false,
                                false, true, true, false)),
                                EmptyString)))))))) k) (negb (is_nnull v))
                         then Some v
                         else find r
                       | _ -> find r)
                    | _ -> find r)
                 in find attrs
               in
               (match typ with
                | Some n ->
                  (match n with
                   | Str (v, _) ->
                     if sq (String ((Ascii (true, true, false, false, false,
                          true, true, false)), (String ((Ascii (false, false,
                          false, true, false, true, true, false)), (String
                          ((Ascii (true, false, true, false, false, true,
                          true, false)), (String ((Ascii (true, true, false,
                          false, false, true, true, false)), (String ((Ascii
                          (true, true, false, true, false, true, true,
                          false)), (String ((Ascii (false, true, false,
                          false, false, true, true, false)), (String ((Ascii
                          (true, true, true, true, false, true, true,
                          false)), (String ((Ascii (false, false, false,
                          true, true, true, true, false)),
                          EmptyString)))))))))))))))) v
                     then import_from_vue (String ((Ascii (false, true, true,
                            false, true, true, true, false)), (String ((Ascii
                            (true, false, true, true, false, false, true,
                            false)), (String ((Ascii (true, true, true, true,
                            false, true, true, false)), (String ((Ascii
                            (false, false, true, false, false, true, true,
                            false)), (String ((Ascii (true, false, true,
                            false, false, true, true, false)), (String
                            ((Ascii (false, false, true, true, false, true,
                            true, false)), (String ((Ascii (true, true,
                            false, false, false, false, true, false)),
                            (String ((Ascii (false, false, false, true,
                            false, true, true, false)), (String ((Ascii
                            (true, false, true, false, false, true, true,
                            false)), (String ((Ascii (true, true, false,
                            false, false, true, true, false)), (String
                            ((Ascii (true, true, false, true, false, true,
                            true, false)), (String ((Ascii (false, true,
                            false, false, false, true, true, false)), (String
                            ((Ascii (true, true, true, true, false, true,
                            true, false)), (String ((Ascii (false, false,
                            false, true, true, true, true, false)),
                            EmptyString)))))))))))))))))))))))))))) s
                     else if sq (String ((Ascii (false, true, false, false,
                               true, true, true, false)), (String ((Ascii
                               (true, false, false, false, false, true, true,
                               false)), (String ((Ascii (false, false, true,
                               false, false, true, true, false)), (String
                               ((Ascii (true, false, false, true, false,
                               true, true, false)), (String ((Ascii (true,
                               true, true, true, false, true, true, false)),
                               EmptyString)))))))))) v
                          then import_from_vue (String ((Ascii (false, true,
                                 true, false, true, true, true, false)),
                                 (String ((Ascii (true, false, true, true,
                                 false, false, true, false)), (String ((Ascii
                                 (true, true, true, true, false, true, true,
                                 false)), (String ((Ascii (false, false,
                                 true, false, false, true, true, false)),
                                 (String ((Ascii (true, false, true, false,
                                 false, true, true, false)), (String ((Ascii
                                 (false, false, true, true, false, true,
                                 true, false)), (String ((Ascii (false, true,
                                 false, false, true, false, true, false)),
                                 (String ((Ascii (true, false, false, false,
                                 false, true, true, false)), (String ((Ascii
                                 (false, false, true, false, false, true,
                                 true, false)), (String ((Ascii (true, false,
                                 false, true, false, true, true, false)),
                                 (String ((Ascii (true, true, true, true,
                                 false, true, true, false)),
                                 EmptyString)))))))))))))))))))))) s
                          else import_from_vue (String ((Ascii (false, true,
                                 true, false, true, true, true, false)),
                                 (String ((Ascii (true, false, true, true,
                                 false, false, true, false)), (String ((Ascii
                                 (true, true, true, true, false, true, true,
                                 false)), (String ((Ascii (false, false,
                                 true, false, false, true, true, false)),
                                 (String ((Ascii (true, false, true, false,
                                 false, true, true, false)), (String ((Ascii
                                 (false, false, true, true, false, true,
                                 true, false)), (String ((Ascii (false,
                                 false, true, false, true, false, true,
                                 false)), (String ((Ascii (true, false, true,
                                 false, false, true, true, false)), (String
                                 ((Ascii (false, false, false, true, true,
                                 true, true, false)), (String ((Ascii (false,
                                 false, true, false, true, true, true,
                                 false)), EmptyString)))))))))))))))))))) s
                   | _ ->
                     import_from_vue (String ((Ascii (false, true, true,
                       false, true, true, true, false)), (String ((Ascii
                       (true, false, true, true, false, false, true, false)),
                       (String ((Ascii (true, true, true, true, false, true,
                       true, false)), (String ((Ascii (false, false, true,
                       false, false, true, true, false)), (String ((Ascii
                       (true, false, true, false, false, true, true, false)),
                       (String ((Ascii (false, false, true, true, false,
                       true, true, false)), (String ((Ascii (false, false,
                       true, false, false, false, true, false)), (String
                       ((Ascii (true, false, false, true, true, true, true,
                       false)), (String ((Ascii (false, true, true, true,
                       false, true, true, false)), (String ((Ascii (true,
                       false, false, false, false, true, true, false)),
                       (String ((Ascii (true, false, true, true, false, true,
                       true, false)), (String ((Ascii (true, false, false,
                       true, false, true, true, false)), (String ((Ascii
                       (true, true, false, false, false, true, true, false)),
                       EmptyString)))))))))))))))))))))))))) s)
                | None ->
                  import_from_vue (String ((Ascii (false, true, true, false,
                    true, true, true, false)), (String ((Ascii (true, false,
                    true, true, false, false, true, false)), (String ((Ascii
                    (true, true, true, true, false, true, true, false)),
                    (String ((Ascii (false, false, true, false, false, true,
                    true, false)), (String ((Ascii (true, false, true, false,
                    false, true, true, false)), (String ((Ascii (false,
                    false, true, true, false, true, true, false)), (String
                    ((Ascii (false, false, true, false, true, false, true,
                    false)), (String ((Ascii (true, false, true, false,
                    false, true, true, false)), (String ((Ascii (false,
                    false, false, true, true, true, true, false)), (String
                    ((Ascii (false, false, true, false, true, true, true,
                    false)), EmptyString)))))))))))))))))))) s)
             | NArr _ ->
               let typ =
                 let rec find = function
                 | [] -> None
                 | n :: r ->
                   (match n with
                    | JAttr (name, v) ->
                      (match name with
                       | IdName k ->
                         if (&&)
                              (sq (String ((Ascii (false, false, true, false,
                                true, true, true, false)), (String ((Ascii
                                (true, false, false, true, true, true, true,
                                false)), (String ((Ascii (false, false,
                                false, false, true, true, true, false)),
                                (String ((Ascii (true, false, true, false,
                                false, true, true, false)),
                                EmptyString)))))))) k) (negb (is_nnull v))
                         then Some v
                         else find r
                       | _ -> find r)
                    | _ -> find r)
                 in find attrs
               in
               (match typ with
                | Some n ->
                  (match n with
                   | Str (v, _) ->
                     if sq (String ((Ascii (true, true, false, false, false,
                          true, true, false)), (String ((Ascii (false, false,
                          false, true, false, true, true, false)), (String
                          ((Ascii (true, false, true, false, false, true,
                          true, false)), (String ((Ascii (true, true, false,
                          false, false, true, true, false)), (String ((Ascii
                          (true, true, false, true, false, true, true,
                          false)), (String ((Ascii (false, true, false,
                          false, false, true, true, false)), (String ((Ascii
                          (true, true, true, true, false, true, true,
                          false)), (String ((Ascii (false, false, false,
                          true, true, true, true, false)),
                          EmptyString)))))))))))))))) v
                     then import_from_vue (String ((Ascii (false, true, true,
                            false, true, true, true, false)), (String ((Ascii
                            (true, false, true, true, false, false, true,
                            false)), (String ((Ascii (true, true, true, true,
                            false, true, true, false)), (String ((Ascii
                            (false, false, true, false, false, true, true,
                            false)), (String ((Ascii (true, false, true,
                            false, false, true, true, false)), (String
                            ((Ascii (false, false, true, true, false, true,
                            true, false)), (String ((Ascii (true, true,
                            false, false, false, false, true, false)),
                            (String ((Ascii (false, false, false, true,
                            false, true, true, false)), (String ((Ascii
                            (true, false, true, false, false, true, true,
                            false)), (String ((Ascii (true, true, false,
                            false, false, true, true, false)), (String
                            ((Ascii (true, true, false, true, false, true,
                            true, false)), (String ((Ascii (false, true,
                            false, false, false, true, true, false)), (String
                            ((Ascii (true, true, true, true, false, true,
                            true, false)), (String ((Ascii (false, false,
                            false, true, true, true, true, false)),
                            EmptyString)))))))))))))))))))))))))))) s
                     else if sq (String ((Ascii (false, true, false, false,
                               true, true, true, false)), (String ((Ascii
                               (true, false, false, false, false, true, true,
                               false)), (String ((Ascii (false, false, true,
                               false, false, true, true, false)), (String
                               ((Ascii (true, false, false, true, false,
                               true, true, false)), (String ((Ascii (true,
                               true, true, true, false, true, true, false)),
                               EmptyString)))))))))) v
                          then import_from_vue (String ((Ascii (false, true,
                                 true, false, true, true, true, false)),
                                 (String ((Ascii (true, false, true, true,
                                 false, false, true, false)), (String ((Ascii
                                 (true, true, true, true, false, true, true,
                                 false)), (String ((Ascii (false, false,
                                 true, false, false, true, true, false)),
                                 (String ((Ascii (true, false, true, false,
                                 false, true, true, false)), (String ((Ascii
                                 (false, false, true, true, false, true,
                                 true, false)), (String ((Ascii (false, true,
                                 false, false, true, false, true, false)),
                                 (String ((Ascii (true, false, false, false,
                                 false, true, true, false)), (String ((Ascii
                                 (false, false, true, false, false, true,
                                 true, false)), (String ((Ascii (true, false,
                                 false, true, false, true, true, false)),
                                 (String ((Ascii (true, true, true, true,
                                 false, true, true, false)),
                                 EmptyString)))))))))))))))))))))) s
                          else import_from_vue (String ((Ascii (false, true,
                                 true, false, true, true, true, false)),
                                 (String ((Ascii (true, false, true, true,
                                 false, false, true, false)), (String ((Ascii
                                 (true, true, true, true, false, true, true,
                                 false)), (String ((Ascii (false, false,
                                 true, false, false, true, true, false)),
                                 (String ((Ascii (true, false, true, false,
                                 false, true, true, false)), (String ((Ascii
                                 (false, false, true, true, false, true,
                                 true, false)), (String ((Ascii (false,
                                 false, true, false, true, false, true,
                                 false)), (String ((Ascii (true, false, true,
                                 false, false, true, true, false)), (String
                                 ((Ascii (false, false, false, true, true,
                                 true, true, false)), (String ((Ascii (false,
                                 false, true, false, true, true, true,
                                 false)), EmptyString)))))))))))))))))))) s
                   | _ ->
                     import_from_vue (String ((Ascii (false, true, true,
                       false, true, true, true, false)), (String ((Ascii
                       (true, false, true, true, false, false, true, false)),
                       (String ((Ascii (true, true, true, true, false, true,
                       true, false)), (String ((Ascii (false, false, true,
                       false, false, true, true, false)), (String ((Ascii
                       (true, false, true, false, false, true, true, false)),
                       (String ((Ascii (false, false, true, true, false,
                       true, true, false)), (String ((Ascii (false, false,
                       true, false, false, false, true, false)), (String
                       ((Ascii (true, false, false, true, true, true, true,
                       false)), (String ((Ascii (false, true, true, true,
                       false, true, true, false)), (String ((Ascii (true,
                       false, false, false, false, true, true, false)),
                       (String ((Ascii (true, false, true, true, false, true,
                       true, false)), (String ((Ascii (true, false, false,
                       true, false, true, true, false)), (String ((Ascii
                       (true, true, false, false, false, true, true, false)),
                       EmptyString)))))))))))))))))))))))))) s)
                | None ->
                  import_from_vue (String ((Ascii (false, true, true, false,
                    true, true, true, false)), (String ((Ascii (true, false,
                    true, true, false, false, true, false)), (String ((Ascii
                    (true, true, true, true, false, true, true, false)),
                    (String ((Ascii (false, false, true, false, false, true,
                    true, false)), (String ((Ascii (true, false, true, false,
                    false, true, true, false)), (String ((Ascii (false,
                    false, true, true, false, true, true, false)), (String
                    ((Ascii (false, false, true, false, true, false, true,
                    false)), (String ((Ascii (true, false, true, false,
                    false, true, true, false)), (String ((Ascii (false,
                    false, false, true, true, true, true, false)), (String
                    ((Ascii (false, false, true, false, true, true, true,
                    false)), EmptyString)))))))))))))))))))) s)
             | NObj _ ->
               let typ =
                 let rec find = function
                 | [] -> None
                 | n :: r ->
                   (match n with
                    | JAttr (name, v) ->
                      (match name with
                       | IdName k ->
                         if (&&)
                              (sq (String ((Ascii (false, false, true, false,
                                true, true, true, false)), (String ((Ascii
                                (true, false, false, true, true, true, true,
                                false)), (String ((Ascii (false, false,
                                false, false, true, true, true, false)),
                                (String ((Ascii (true, false, true, false,
                                false, true, true, false)),
                                EmptyString)))))))) k) (negb (is_nnull v))
                         then Some v
                         else find r
                       | _ -> find r)
                    | _ -> find r)
                 in find attrs
               in
               (match typ with
                | Some n ->
                  (match n with
                   | Str (v, _) ->
                     if sq (String ((Ascii (true, true, false, false, false,
                          true, true, false)), (String ((Ascii (false, false,
                          false, true, false, true, true, false)), (String
                          ((Ascii (true, false, true, false, false, true,
                          true, false)), (String ((Ascii (true, true, false,
                          false, false, true, true, false)), (String ((Ascii
                          (true, true, false, true, false, true, true,
                          false)), (String ((Ascii (false, true, false,
                          false, false, true, true, false)), (String ((Ascii
                          (true, true, true, true, false, true, true,
                          false)), (String ((Ascii (false, false, false,
                          true, true, true, true, false)),
                          EmptyString)))))))))))))))) v
                     then import_from_vue (String ((Ascii (false, true, true,
                            false, true, true, true, false)), (String ((Ascii
                            (true, false, true, true, false, false, true,
                            false)), (String ((Ascii (true, true, true, true,
                            false, true, true, false)), (String ((Ascii
                            (false, false, true, false, false, true, true,
                            false)), (String ((Ascii (true, false, true,
                            false, false, true, true, false)), (String
                            ((Ascii (false, false, true, true, false, true,
                            true, false)), (String ((Ascii (true, true,
                            false, false, false, false, true, false)),
                            (String ((Ascii (false, false, false, true,
                            false, true, true, false)), (String ((Ascii
                            (true, false, true, false, false, true, true,
                            false)), (String ((Ascii (true, true, false,
                            false, false, true, true, false)), (String
                            ((Ascii (true, true, false, true, false, true,
                            true, false)), (String ((Ascii (false, true,
                            false, false, false, true, true, false)), (String
                            ((Ascii (true, true, true, true, false, true,
                            true, false)), (String ((Ascii (false, false,
                            false, true, true, true, true, false)),
                            EmptyString)))))))))))))))))))))))))))) s
                     else if sq (String ((Ascii (false, true, false, false,
                               true, true, true, false)), (String ((Ascii
                               (true, false, false, false, false, true, true,
                               false)), (String ((Ascii (false, false, true,
                               false, false, true, true, false)), (String
                               ((Ascii (true, false, false, true, false,
                               true, true, false)), (String ((Ascii (true,
                               true, true, true, false, true, true, false)),
                               EmptyString)))))))))) v
                          then import_from_vue (String ((Ascii (false, true,
                                 true, false, true, true, true, false)),
                                 (String ((Ascii (true, false, true, true,
                                 false, false, true, false)), (String ((Ascii
                                 (true, true, true, true, false, true, true,
                                 false)), (String ((Ascii (false, false,
                                 true, false, false, true, true, false)),
                                 (String ((Ascii (true, false, true, false,
                                 false, true, true, false)), (String ((Ascii
                                 (false, false, true, true, false, true,
                                 true, false)), (String ((Ascii (false, true,
                                 false, false, true, false, true, false)),
                                 (String ((Ascii (true, false, false, false,
                                 false, true, true, false)), (String ((Ascii
                                 (false, false, true, false, false, true,
                                 true, false)), (String ((Ascii (true, false,
                                 false, true, false, true, true, false)),
                                 (String ((Ascii (true, true, true, true,
                                 false, true, true, false)),
                                 EmptyString)))))))))))))))))))))) s
                          else import_from_vue (String ((Ascii (false, true,
                                 true, false, true, true, true, false)),
                                 (String ((Ascii (true, false, true, true,
                                 false, false, true, false)), (String ((Ascii
                                 (true, true, true, true, false, true, true,
                                 false)), (String ((Ascii (false, false,
                                 true, false, false, true, true, false)),
                                 (String ((Ascii (true, false, true, false,
                                 false, true, true, false)), (String ((Ascii
                                 (false, false, true, true, false, true,
                                 true, false)), (String ((Ascii (false,
                                 false, true, false, true, false, true,
                                 false)), (String ((Ascii (true, false, true,
                                 false, false, true, true, false)), (String
                                 ((Ascii (false, false, false, true, true,
                                 true, true, false)), (String ((Ascii (false,
                                 false, true, false, true, true, true,
                                 false)), EmptyString)))))))))))))))))))) s
                   | _ ->
                     import_from_vue (String ((Ascii (false, true, true,
                       false, true, true, true, false)), (String ((Ascii
                       (true, false, true, true, false, false, true, false)),
                       (String ((Ascii (true, true, true, true, false, true,
                       true, false)), (String ((Ascii (false, false, true,
                       false, false, true, true, false)), (String ((Ascii
                       (true, false, true, false, false, true, true, false)),
                       (String ((Ascii (false, false, true, true, false,
                       true, true, false)), (String ((Ascii (false, false,
                       true, false, false, false, true, false)), (String
                       ((Ascii (true, false, false, true, true, true, true,
                       false)), (String ((Ascii (false, true, true, true,
                       false, true, true, false)), (String ((Ascii (true,
                       false, false, false, false, true, true, false)),
                       (String ((Ascii (true, false, true, true, false, true,
                       true, false)), (String ((Ascii (true, false, false,
                       true, false, true, true, false)), (String ((Ascii
                       (true, true, false, false, false, true, true, false)),
                       EmptyString)))))))))))))))))))))))))) s)
                | None ->
                  import_from_vue (String ((Ascii (false, true, true, false,
                    true, true, true, false)), (String ((Ascii (true, false,
                    true, true, false, false, true, false)), (String ((Ascii
                    (true, true, true, true, false, true, true, false)),
                    (String ((Ascii (false, false, true, false, false, true,
                    true, false)), (String ((Ascii (true, false, true, false,
                    false, true, true, false)), (String ((Ascii (false,
                    false, true, true, false, true, true, false)), (String
                    ((Ascii (false, false, true, false, true, false, true,
                    false)), (String ((Ascii (true, false, true, false,
                    false, true, true, false)), (String ((Ascii (false,
                    false, false, true, true, true, true, false)), (String
                    ((Ascii (false, false, true, false, true, true, true,
                    false)), EmptyString)))))))))))))))))))) s)
             | Field (_, _) ->
               let typ =
                 let rec find = function
                 | [] -> None
                 | n :: r ->
                   (match n with
                    | JAttr (name, v) ->
                      (match name with
                       | IdName k ->
                         if (&&)
                              (sq (String ((Ascii (false, false, true, false,
                                true, true, true, false)), (String ((Ascii
                                (true, false, false, true, true, true, true,
                                false)), (String ((Ascii (false, false,
                                false, false, true, true, true, false)),
                                (String ((Ascii (true, false, true, false,
                                false, true, true, false)),
                                EmptyString)))))))) k) (negb (is_nnull v))
                         then Some v
                         else find r
                       | _ -> find r)
                    | _ -> find r)
                 in find attrs
               in
               (match typ with
                | Some n ->
                  (match n with
                   | Str (v, _) ->
                     if sq (String ((Ascii (true, true, false, false, false,
                          true, true, false)), (String ((Ascii (false, false,
                          false, true, false, true, true, false)), (String
                          ((Ascii (true, false, true, false, false, true,
                          true, false)), (String ((Ascii (true, true, false,
                          false, false, true, true, false)), (String ((Ascii
                          (true, true, false, true, false, true, true,
                          false)), (String ((Ascii (false, true, false,
                          false, false, true, true, false)), (String ((Ascii
                          (true, true, true, true, false, true, true,
                          false)), (String ((Ascii (false, false, false,
                          true, true, true, true, false)),
                          EmptyString)))))))))))))))) v
                     then import_from_vue (String ((Ascii (false, true, true,
                            false, true, true, true, false)), (String ((Ascii
                            (true, false, true, true, false, false, true,
                            false)), (String ((Ascii (true, true, true, true,
                            false, true, true, false)), (String ((Ascii
                            (false, false, true, false, false, true, true,
                            false)), (String ((Ascii (true, false, true,
                            false, false, true, true, false)), (String
                            ((Ascii (false, false, true, true, false, true,
                            true, false)), (String ((Ascii (true, true,
                            false, false, false, false, true, false)),
                            (String ((Ascii (false, false, false, true,
                            false, true, true, false)), (String ((Ascii
                            (true, false, true, false, false, true, true,
                            false)), (String ((Ascii (true, true, false,
                            false, false, true, true, false)), (String
                            ((Ascii (true, true, false, true, false, true,
                            true, false)), (String ((Ascii (false, true,
                            false, false, false, true, true, false)), (String
                            ((Ascii (true, true, true, true, false, true,
                            true, false)), (String ((Ascii (false, false,
                            false, true, true, true, true, false)),
                            EmptyString)))))))))))))))))))))))))))) s
                     else if sq (String ((Ascii (false, true, false, false,
                               true, true, true, false)), (String ((Ascii
                               (true, false, false, false, false, true, true,
                               false)), (String ((Ascii (false, false, true,
                               false, false, true, true, false)), (String
                               ((Ascii (true, false, false, true, false,
                               true, true, false)), (String ((Ascii (true,
                               true, true, true, false, true, true, false)),
                               EmptyString)))))))))) v
                          then import_from_vue (String ((Ascii (false, true,
                                 true, false, true, true, true, false)),
                                 (String ((Ascii (true, false, true, true,
                                 false, false, true, false)), (String ((Ascii
                                 (true, true, true, true, false, true, true,
                                 false)), (String ((Ascii (false, false,
                                 true, false, false, true, true, false)),
                                 (String ((Ascii (true, false, true, false,
                                 false, true, true, false)), (String ((Ascii
                                 (false, false, true, true, false, true,
                                 true, false)), (String ((Ascii (false, true,
                                 false, false, true, false, true, false)),
                                 (String ((Ascii (true, false, false, false,
                                 false, true, true, false)), (String ((Ascii
                                 (false, false, true, false, false, true,
                                 true, false)), (String ((Ascii (true, false,
                                 false, true, false, true, true, false)),
                                 (String ((Ascii (true, true, true, true,
                                 false, true, true, false)),
                                 EmptyString)))))))))))))))))))))) s
                          else import_from_vue (String ((Ascii (false, true,
                                 true, false, true, true, true, false)),
                                 (String ((Ascii (true, false, true, true,
                                 false, false, true, false)), (String ((Ascii
                                 (true, true, true, true, false, true, true,
                                 false)), (String ((Ascii (false, false,
                                 true, false, false, true, true, false)),
                                 (String ((Ascii (true, false, true, false,
                                 false, true, true, false)), (String ((Ascii
                                 (false, false, true, true, false, true,
                                 true, false)), (String ((Ascii (false,
                                 false, true, false, true, false, true,
                                 false)), (String ((Ascii (true, false, true,
                                 false, false, true, true, false)), (String
                                 ((Ascii (false, false, false, true, true,
                                 true, true, false)), (String ((Ascii (false,
                                 false, true, false, true, true, true,
                                 false)), EmptyString)))))))))))))))))))) s
                   | _ ->
                     import_from_vue (String ((Ascii (false, true, true,
                       false, true, true, true, false)), (String ((Ascii
                       (true, false, true, true, false, false, true, false)),
                       (String ((Ascii (true, true, true, true, false, true,
                       true, false)), (String ((Ascii (false, false, true,
                       false, false, true, true, false)), (String ((Ascii
                       (true, false, true, false, false, true, true, false)),
                       (String ((Ascii (false, false, true, true, false,
                       true, true, false)), (String ((Ascii (false, false,
                       true, false, false, false, true, false)), (String
                       ((Ascii (true, false, false, true, true, true, true,
                       false)), (String ((Ascii (false, true, true, true,
                       false, true, true, false)), (String ((Ascii (true,
                       false, false, false, false, true, true, false)),
                       (String ((Ascii (true, false, true, true, false, true,
                       true, false)), (String ((Ascii (true, false, false,
                       true, false, true, true, false)), (String ((Ascii
                       (true, true, false, false, false, true, true, false)),
                       EmptyString)))))))))))))))))))))))))) s)
                | None ->
                  import_from_vue (String ((Ascii (false, true, true, false,
                    true, true, true, false)), (String ((Ascii (true, false,
                    true, true, false, false, true, false)), (String ((Ascii
                    (true, true, true, true, false, true, true, false)),
                    (String ((Ascii (false, false, true, false, false, true,
                    true, false)), (String ((Ascii (true, false, true, false,
                    false, true, true, false)), (String ((Ascii (false,
                    false, true, true, false, true, true, false)), (String
                    ((Ascii (false, false, true, false, true, false, true,
                    false)), (String ((Ascii (true, false, true, false,
                    false, true, true, false)), (String ((Ascii (false,
                    false, false, true, true, true, true, false)), (String
                    ((Ascii (false, false, true, false, true, true, true,
                    false)), EmptyString)))))))))))))))))))) s)
             | Ident (n, _, _) ->
               if sq (String ((Ascii (true, true, false, false, true, true,
                    true, false)), (String ((Ascii (true, false, true, false,
                    false, true, true, false)), (String ((Ascii (false,
                    false, true, true, false, true, true, false)), (String
                    ((Ascii (true, false, true, false, false, true, true,
                    false)), (String ((Ascii (true, true, false, false,
                    false, true, true, false)), (String ((Ascii (false,
                    false, true, false, true, true, true, false)),
                    EmptyString)))))))))))) n
               then import_from_vue (String ((Ascii (false, true, true,
                      false, true, true, true, false)), (String ((Ascii
                      (true, false, true, true, false, false, true, false)),
                      (String ((Ascii (true, true, true, true, false, true,
                      true, false)), (String ((Ascii (false, false, true,
                      false, false, true, true, false)), (String ((Ascii
                      (true, false, true, false, false, true, true, false)),
                      (String ((Ascii (false, false, true, true, false, true,
                      true, false)), (String ((Ascii (true, true, false,
                      false, true, false, true, false)), (String ((Ascii
                      (true, false, true, false, false, true, true, false)),
                      (String ((Ascii (false, false, true, true, false, true,
                      true, false)), (String ((Ascii (true, false, true,
                      false, false, true, true, false)), (String ((Ascii
                      (true, true, false, false, false, true, true, false)),
                      (String ((Ascii (false, false, true, false, true, true,
                      true, false)), EmptyString)))))))))))))))))))))))) s
               else if sq (String ((Ascii (false, false, true, false, true,
                         true, true, false)), (String ((Ascii (true, false,
                         true, false, false, true, true, false)), (String
                         ((Ascii (false, false, false, true, true, true,
                         true, false)), (String ((Ascii (false, false, true,
                         false, true, true, true, false)), (String ((Ascii
                         (true, false, false, false, false, true, true,
                         false)), (String ((Ascii (false, true, false, false,
                         true, true, true, false)), (String ((Ascii (true,
                         false, true, false, false, true, true, false)),
                         (String ((Ascii (true, false, false, false, false,
                         true, true, false)), EmptyString)))))))))))))))) n
                    then import_from_vue (String ((Ascii (false, true, true,
                           false, true, true, true, false)), (String ((Ascii
                           (true, false, true, true, false, false, true,
                           false)), (String ((Ascii (true, true, true, true,
                           false, true, true, false)), (String ((Ascii
                           (false, false, true, false, false, true, true,
                           false)), (String ((Ascii (true, false, true,
                           false, false, true, true, false)), (String ((Ascii
                           (false, false, true, true, false, true, true,
                           false)), (String ((Ascii (false, false, true,
                           false, true, false, true, false)), (String ((Ascii
                           (true, false, true, false, false, true, true,
                           false)), (String ((Ascii (false, false, false,
                           true, true, true, true, false)), (String ((Ascii
                           (false, false, true, false, true, true, true,
                           false)), EmptyString)))))))))))))))))))) s
                    else let typ =
                           let rec find = function
                           | [] -> None
                           | n0 :: r ->
                             (match n0 with
                              | JAttr (name, v) ->
                                (match name with
                                 | IdName k ->
                                   if (&&)
                                        (sq (String ((Ascii (false, false,
                                          true, false, true, true, true,
                                          false)), (String ((Ascii (true,
                                          false, false, true, true, true,
                                          true, false)), (String ((Ascii
                                          (false, false, false, false, true,
                                          true, true, false)), (String
                                          ((Ascii (true, false, true, false,
                                          false, true, true, false)),
                                          EmptyString)))))))) k)
                                        (negb (is_nnull v))
                                   then Some v
                                   else find r
                                 | _ -> find r)
                              | _ -> find r)
                           in find attrs
                         in
                         (match typ with
                          | Some n0 ->
                            (match n0 with
                             | Str (v, _) ->
                               if sq (String ((Ascii (true, true, false,
                                    false, false, true, true, false)),
                                    (String ((Ascii (false, false, false,
                                    true, false, true, true, false)), (String
                                    ((Ascii (true, false, true, false, false,
                                    true, true, false)), (String ((Ascii
                                    (true, true, false, false, false, true,
                                    true, false)), (String ((Ascii (true,
                                    true, false, true, false, true, true,
                                    false)), (String ((Ascii (false, true,
                                    false, false, false, true, true, false)),
                                    (String ((Ascii (true, true, true, true,
                                    false, true, true, false)), (String
                                    ((Ascii (false, false, false, true, true,
                                    true, true, false)),
                                    EmptyString)))))))))))))))) v
                               then import_from_vue (String ((Ascii (false,
                                      true, true, false, true, true, true,
                                      false)), (String ((Ascii (true, false,
                                      true, true, false, false, true,
                                      false)), (String ((Ascii (true, true,
                                      true, true, false, true, true, false)),
                                      (String ((Ascii (false, false, true,
                                      false, false, true, true, false)),
                                      (String ((Ascii (true, false, true,
                                      false, false, true, true, false)),
                                      (String ((Ascii (false, false, true,
                                      true, false, true, true, false)),
                                      (String ((Ascii (true, true, false,
                                      false, false, false, true, false)),
                                      (String ((Ascii (false, false, false,
                                      true, false, true, true, false)),
                                      (String ((Ascii (true, false, true,
                                      false, false, true, true, false)),
                                      (String ((Ascii (true, true, false,
                                      false, false, true, true, false)),
                                      (String ((Ascii (true, true, false,
                                      true, false, true, true, false)),
                                      (String ((Ascii (false, true, false,
                                      false, false, true, true, false)),
                                      (String ((Ascii (true, true, true,
                                      true, false, true, true, false)),
                                      (String ((Ascii (false, false, false,
                                      true, true, true, true, false)),
                                      EmptyString))))))))))))))))))))))))))))
                                      s
                               else if sq (String ((Ascii (false, true,
                                         false, false, true, true, true,
                                         false)), (String ((Ascii (true,
                                         false, false, false, false, true,
                                         true, false)), (String ((Ascii
                                         (false, false, true, false, false,
                                         true, true, false)), (String ((Ascii
                                         (true, false, false, true, false,
                                         true, true, false)), (String ((Ascii
                                         (true, true, true, true, false,
                                         true, true, false)),
                                         EmptyString)))))))))) v
                                    then import_from_vue (String ((Ascii
                                           (false, true, true, false, true,
                                           true, true, false)), (String
                                           ((Ascii (true, false, true, true,
                                           false, false, true, false)),
                                           (String ((Ascii (true, true, true,
                                           true, false, true, true, false)),
                                           (String ((Ascii (false, false,
                                           true, false, false, true, true,
                                           false)), (String ((Ascii (true,
                                           false, true, false, false, true,
                                           true, false)), (String ((Ascii
                                           (false, false, true, true, false,
                                           true, true, false)), (String
                                           ((Ascii (false, true, false,
                                           false, true, false, true, false)),
                                           (String ((Ascii (true, false,
                                           false, false, false, true, true,
                                           false)), (String ((Ascii (false,
                                           false, true, false, false, true,
                                           true, false)), (String ((Ascii
                                           (true, false, false, true, false,
                                           true, true, false)), (String
                                           ((Ascii (true, true, true, true,
                                           false, true, true, false)),
                                           EmptyString)))))))))))))))))))))) s
                                    else import_from_vue (String ((Ascii
                                           (false, true, true, false, true,
                                           true, true, false)), (String
                                           ((Ascii (true, false, true, true,
                                           false, false, true, false)),
                                           (String ((Ascii (true, true, true,
                                           true, false, true, true, false)),
                                           (String ((Ascii (false, false,
                                           true, false, false, true, true,
                                           false)), (String ((Ascii (true,
                                           false, true, false, false, true,
                                           true, false)), (String ((Ascii
                                           (false, false, true, true, false,
                                           true, true, false)), (String
                                           ((Ascii (false, false, true,
                                           false, true, false, true, false)),
                                           (String ((Ascii (true, false,
                                           true, false, false, true, true,
                                           false)), (String ((Ascii (false,
                                           false, false, true, true, true,
                                           true, false)), (String ((Ascii
                                           (false, false, true, false, true,
                                           true, true, false)),
                                           EmptyString)))))))))))))))))))) s
                             | _ ->
                               import_from_vue (String ((Ascii (false, true,
                                 true, false, true, true, true, false)),
                                 (String ((Ascii (true, false, true, true,
                                 false, false, true, false)), (String ((Ascii
                                 (true, true, true, true, false, true, true,
                                 false)), (String ((Ascii (false, false,
                                 true, false, false, true, true, false)),
                                 (String ((Ascii (true, false, true, false,
                                 false, true, true, false)), (String ((Ascii
                                 (false, false, true, true, false, true,
                                 true, false)), (String ((Ascii (false,
                                 false, true, false, false, false, true,
                                 false)), (String ((Ascii (true, false,
                                 false, true, true, true, true, false)),
                                 (String ((Ascii (false, true, true, true,
                                 false, true, true, false)), (String ((Ascii
                                 (true, false, false, false, false, true,
                                 true, false)), (String ((Ascii (true, false,
                                 true, true, false, true, true, false)),
                                 (String ((Ascii (true, false, false, true,
                                 false, true, true, false)), (String ((Ascii
                                 (true, true, false, false, false, true,
                                 true, false)),
                                 EmptyString)))))))))))))))))))))))))) s)
                          | None ->
                            import_from_vue (String ((Ascii (false, true,
                              true, false, true, true, true, false)), (String
                              ((Ascii (true, false, true, true, false, false,
                              true, false)), (String ((Ascii (true, true,
                              true, true, false, true, true, false)), (String
                              ((Ascii (false, false, true, false, false,
                              true, true, false)), (String ((Ascii (true,
                              false, true, false, false, true, true, false)),
                              (String ((Ascii (false, false, true, true,
                              false, true, true, false)), (String ((Ascii
                              (false, false, true, false, true, false, true,
                              false)), (String ((Ascii (true, false, true,
                              false, false, true, true, false)), (String
                              ((Ascii (false, false, false, true, true, true,
                              true, false)), (String ((Ascii (false, false,
                              true, false, true, true, true, false)),
                              EmptyString)))))))))))))))))))) s)
             | BIdent (_, _, _, _) ->
               let typ =
                 let rec find = function
                 | [] -> None
                 | n :: r ->
                   (match n with
                    | JAttr (name, v) ->
                      (match name with
                       | IdName k ->
                         if (&&)
                              (sq (String ((Ascii (false, false, true, false,
                                true, true, true, false)), (String ((Ascii
                                (true, false, false, true, true, true, true,
                                false)), (String ((Ascii (false, false,
                                false, false, true, true, true, false)),
                                (String ((Ascii (true, false, true, false,
                                false, true, true, false)),
                                EmptyString)))))))) k) (negb (is_nnull v))
                         then Some v
                         else find r
                       | _ -> find r)
                    | _ -> find r)
                 in find attrs
               in
               (match typ with
                | Some n ->
                  (match n with
                   | Str (v, _) ->
                     if sq (String ((Ascii (true, true, false, false, false,
                          true, true, false)), (String ((Ascii (false, false,
                          false, true, false, true, true, false)), (String
                          ((Ascii (true, false, true, false, false, true,
                          true, false)), (String ((Ascii (true, true, false,
                          false, false, true, true, false)), (String ((Ascii
                          (true, true, false, true, false, true, true,
                          false)), (String ((Ascii (false, true, false,
                          false, false, true, true, false)), (String ((Ascii
                          (true, true, true, true, false, true, true,
                          false)), (String ((Ascii (false, false, false,
                          true, true, true, true, false)),
                          EmptyString)))))))))))))))) v
                     then import_from_vue (String ((Ascii (false, true, true,
                            false, true, true, true, false)), (String ((Ascii
                            (true, false, true, true, false, false, true,
                            false)), (String ((Ascii (true, true, true, true,
                            false, true, true, false)), (String ((Ascii
                            (false, false, true, false, false, true, true,
                            false)), (String ((Ascii (true, false, true,
                            false, false, true, true, false)), (String
                            ((Ascii (false, false, true, true, false, true,
                            true, false)), (String ((Ascii (true, true,
                            false, false, false, false, true, false)),
                            (String ((Ascii (false, false, false, true,
                            false, true, true, false)), (String ((Ascii
                            (true, false, true, false, false, true, true,
                            false)), (String ((Ascii (true, true, false,
                            false, false, true, true, false)), (String
                            ((Ascii (true, true, false, true, false, true,
                            true, false)), (String ((Ascii (false, true,
                            false, false, false, true, true, false)), (String
                            ((Ascii (true, true, true, true, false, true,
                            true, false)), (String ((Ascii (false, false,
                            false, true, true, true, true, false)),
                            EmptyString)))))))))))))))))))))))))))) s
                     else if sq (String ((Ascii (false, true, false, false,
                               true, true, true, false)), (String ((Ascii
                               (true, false, false, false, false, true, true,
                               false)), (String ((Ascii (false, false, true,
                               false, false, true, true, false)), (String
                               ((Ascii (true, false, false, true, false,
                               true, true, false)), (String ((Ascii (true,
                               true, true, true, false, true, true, false)),
                               EmptyString)))))))))) v
                          then import_from_vue (String ((Ascii (false, true,
                                 true, false, true, true, true, false)),
                                 (String ((Ascii (true, false, true, true,
                                 false, false, true, false)), (String ((Ascii
                                 (true, true, true, true, false, true, true,
                                 false)), (String ((Ascii (false, false,
                                 true, false, false, true, true, false)),
                                 (String ((Ascii (true, false, true, false,
                                 false, true, true, false)), (String ((Ascii
                                 (false, false, true, true, false, true,
                                 true, false)), (String ((Ascii (false, true,
                                 false, false, true, false, true, false)),
                                 (String ((Ascii (true, false, false, false,
                                 false, true, true, false)), (String ((Ascii
                                 (false, false, true, false, false, true,
                                 true, false)), (String ((Ascii (true, false,
                                 false, true, false, true, true, false)),
                                 (String ((Ascii (true, true, true, true,
                                 false, true, true, false)),
                                 EmptyString)))))))))))))))))))))) s
                          else import_from_vue (String ((Ascii (false, true,
                                 true, false, true, true, true, false)),
                                 (String ((Ascii (true, false, true, true,
                                 false, false, true, false)), (String ((Ascii
                                 (true, true, true, true, false, true, true,
                                 false)), (String ((Ascii (false, false,
                                 true, false, false, true, true, false)),
                                 (String ((Ascii (true, false, true, false,
                                 false, true, true, false)), (String ((Ascii
                                 (false, false, true, true, false, true,
                                 true, false)), (String ((Ascii (false,
                                 false, true, false, true, false, true,
                                 false)), (String ((Ascii (true, false, true,
                                 false, false, true, true, false)), (String
                                 ((Ascii (false, false, false, true, true,
                                 true, true, false)), (String ((Ascii (false,
                                 false, true, false, true, true, true,
                                 false)), EmptyString)))))))))))))))))))) s
                   | _ ->
                     import_from_vue (String ((Ascii (false, true, true,
                       false, true, true, true, false)), (String ((Ascii
                       (true, false, true, true, false, false, true, false)),
                       (String ((Ascii (true, true, true, true, false, true,
                       true, false)), (String ((Ascii (false, false, true,
                       false, false, true, true, false)), (String ((Ascii
                       (true, false, true, false, false, true, true, false)),
                       (String ((Ascii (false, false, true, true, false,
                       true, true, false)), (String ((Ascii (false, false,
                       true, false, false, false, true, false)), (String
                       ((Ascii (true, false, false, true, true, true, true,
                       false)), (String ((Ascii (false, true, true, true,
                       false, true, true, false)), (String ((Ascii (true,
                       false, false, false, false, true, true, false)),
                       (String ((Ascii (true, false, true, true, false, true,
                       true, false)), (String ((Ascii (true, false, false,
                       true, false, true, true, false)), (String ((Ascii
                       (true, true, false, false, false, true, true, false)),
                       EmptyString)))))))))))))))))))))))))) s)
                | None ->
                  import_from_vue (String ((Ascii (false, true, true, false,
                    true, true, true, false)), (String ((Ascii (true, false,
                    true, true, false, false, true, false)), (String ((Ascii
                    (true, true, true, true, false, true, true, false)),
                    (String ((Ascii (false, false, true, false, false, true,
                    true, false)), (String ((Ascii (true, false, true, false,
                    false, true, true, false)), (String ((Ascii (false,
                    false, true, true, false, true, true, false)), (String
                    ((Ascii (false, false, true, false, true, false, true,
                    false)), (String ((Ascii (true, false, true, false,
                    false, true, true, false)), (String ((Ascii (false,
                    false, false, true, true, true, true, false)), (String
                    ((Ascii (false, false, true, false, true, true, true,
                    false)), EmptyString)))))))))))))))))))) s)
             | IdName _ ->
               let typ =
                 let rec find = function
                 | [] -> None
                 | n :: r ->
                   (match n with
                    | JAttr (name, v) ->
                      (match name with
                       | IdName k ->
                         if (&&)
                              (sq (String ((Ascii (false, false, true, false,
                                true, true, true, false)), (String ((Ascii
                                (true, false, false, true, true, true, true,
                                false)), (String ((Ascii (false, false,
                                false, false, true, true, true, false)),
                                (String ((Ascii (true, false, true, false,
                                false, true, true, false)),
                                EmptyString)))))))) k) (negb (is_nnull v))
                         then Some v
                         else find r
                       | _ -> find r)
                    | _ -> find r)
                 in find attrs
               in
               (match typ with
                | Some n ->
                  (match n with
                   | Str (v, _) ->
                     if sq (String ((Ascii (true, true, false, false, false,
                          true, true, false)), (String ((Ascii (false, false,
                          false, true, false, true, true, false)), (String
                          ((Ascii (true, false, true, false, false, true,
                          true, false)), (String ((Ascii (true, true, false,
                          false, false, true, true, false)), (String ((Ascii
                          (true, true, false, true, false, true, true,
                          false)), (String ((Ascii (false, true, false,
                          false, false, true, true, false)), (String ((Ascii
                          (true, true, true, true, false, true, true,
                          false)), (String ((Ascii (false, false, false,
                          true, true, true, true, false)),
                          EmptyString)))))))))))))))) v
                     then import_from_vue (String ((Ascii (false, true, true,
                            false, true, true, true, false)), (String ((Ascii
                            (true, false, true, true, false, false, true,
                            false)), (String ((Ascii (true, true, true, true,
                            false, true, true, false)), (String ((Ascii
                            (false, false, true, false, false, true, true,
                            false)), (String ((Ascii (true, false, true,
                            false, false, true, true, false)), (String
                            ((Ascii (false, false, true, true, false, true,
                            true, false)), (String ((Ascii (true, true,
                            false, false, false, false, true, false)),
                            (String ((Ascii (false, false, false, true,
                            false, true, true, false)), (String ((Ascii
                            (true, false, true, false, false, true, true,
                            false)), (String ((Ascii (true, true, false,
                            false, false, true, true, false)), (String
                            ((Ascii (true, true, false, true, false, true,
                            true, false)), (String ((Ascii (false, true,
                            false, false, false, true, true, false)), (String
                            ((Ascii (true, true, true, true, false, true,
                            true, false)), (String ((Ascii (false, false,
                            false, true, true, true, true, false)),
                            EmptyString)))))))))))))))))))))))))))) s
                     else if sq (String ((Ascii (false, true, false, false,
                               true, true, true, false)), (String ((Ascii
                               (true, false, false, false, false, true, true,
                               false)), (String ((Ascii (false, false, true,
                               false, false, true, true, false)), (String
                               ((Ascii (true, false, false, true, false,
                               true, true, false)), (String ((Ascii (true,
                               true, true, true, false, true, true, false)),
                               EmptyString)))))))))) v
                          then import_from_vue (String ((Ascii (false, true,
                                 true, false, true, true, true, false)),
                                 (String ((Ascii (true, false, true, true,
                                 false, false, true, false)), (String ((Ascii
                                 (true, true, true, true, false, true, true,
                                 false)), (String ((Ascii (false, false,
                                 true, false, false, true, true, false)),
                                 (String ((Ascii (true, false, true, false,
                                 false, true, true, false)), (String ((Ascii
                                 (false, false, true, true, false, true,
                                 true, false)), (String ((Ascii (false, true,
                                 false, false, true, false, true, false)),
                                 (String ((Ascii (true, false, false, false,
                                 false, true, true, false)), (String ((Ascii
                                 (false, false, true, false, false, true,
                                 true, false)), (String ((Ascii (true, false,
                                 false, true, false, true, true, false)),
                                 (String ((Ascii (true, true, true, true,
                                 false, true, true, false)),
                                 EmptyString)))))))))))))))))))))) s
                          else import_from_vue (String ((Ascii (false, true,
                                 true, false, true, true, true, false)),
                                 (String ((Ascii (true, false, true, true,
                                 false, false, true, false)), (String ((Ascii
                                 (true, true, true, true, false, true, true,
                                 false)), (String ((Ascii (false, false,
                                 true, false, false, true, true, false)),
                                 (String ((Ascii (true, false, true, false,
                                 false, true, true, false)), (String ((Ascii
                                 (false, false, true, true, false, true,
                                 true, false)), (String ((Ascii (false,
                                 false, true, false, true, false, true,
                                 false)), (String ((Ascii (true, false, true,
                                 false, false, true, true, false)), (String
                                 ((Ascii (false, false, false, true, true,
                                 true, true, false)), (String ((Ascii (false,
                                 false, true, false, true, true, true,
                                 false)), EmptyString)))))))))))))))))))) s
                   | _ ->
                     import_from_vue (String ((Ascii (false, true, true,
                       false, true, true, true, false)), (String ((Ascii
                       (true, false, true, true, false, false, true, false)),
                       (String ((Ascii (true, true, true, true, false, true,
                       true, false)), (String ((Ascii (false, false, true,
                       false, false, true, true, false)), (String ((Ascii
                       (true, false, true, false, false, true, true, false)),
                       (String ((Ascii (false, false, true, true, false,
                       true, true, false)), (String ((Ascii (false, false,
                       true, false, false, false, true, false)), (String
                       ((Ascii (true, false, false, true, true, true, true,
                       false)), (String ((Ascii (false, true, true, true,
                       false, true, true, false)), (String ((Ascii (true,
                       false, false, false, false, true, true, false)),
                       (String ((Ascii (true, false, true, true, false, true,
                       true, false)), (String ((Ascii (true, false, false,
                       true, false, true, true, false)), (String ((Ascii
                       (true, true, false, false, false, true, true, false)),
                       EmptyString)))))))))))))))))))))))))) s)
                | None ->
                  import_from_vue (String ((Ascii (false, true, true, false,
                    true, true, true, false)), (String ((Ascii (true, false,
                    true, true, false, false, true, false)), (String ((Ascii
                    (true, true, true, true, false, true, true, false)),
                    (String ((Ascii (false, false, true, false, false, true,
                    true, false)), (String ((Ascii (true, false, true, false,
                    false, true, true, false)), (String ((Ascii (false,
                    false, true, true, false, true, true, false)), (String
                    ((Ascii (false, false, true, false, true, false, true,
                    false)), (String ((Ascii (true, false, true, false,
                    false, true, true, false)), (String ((Ascii (false,
                    false, false, true, true, true, true, false)), (String
                    ((Ascii (false, false, true, false, true, true, true,
                    false)), EmptyString)))))))))))))))))))) s)
             | Str (_, _) ->
               let typ =
                 let rec find = function
                 | [] -> None
                 | n :: r ->
                   (match n with
                    | JAttr (name, v) ->
                      (match name with
                       | IdName k ->
                         if (&&)
                              (sq (String ((Ascii (false, false, true, false,
                                true, true, true, false)), (String ((Ascii
                                (true, false, false, true, true, true, true,
                                false)), (String ((Ascii (false, false,
                                false, false, true, true, true, false)),
                                (String ((Ascii (true, false, true, false,
                                false, true, true, false)),
                                EmptyString)))))))) k) (negb (is_nnull v))
                         then Some v
                         else find r
                       | _ -> find r)
                    | _ -> find r)
                 in find attrs
               in
               (match typ with
                | Some n ->
                  (match n with
                   | Str (v, _) ->
                     if sq (String ((Ascii (true, true, false, false, false,
                          true, true, false)), (String ((Ascii (false, false,
                          false, true, false, true, true, false)), (String
                          ((Ascii (true, false, true, false, false, true,
                          true, false)), (String ((Ascii (true, true, false,
                          false, false, true, true, false)), (String ((Ascii
                          (true, true, false, true, false, true, true,
                          false)), (String ((Ascii (false, true, false,
                          false, false, true, true, false)), (String ((Ascii
                          (true, true, true, true, false, true, true,
                          false)), (String ((Ascii (false, false, false,
                          true, true, true, true, false)),
                          EmptyString)))))))))))))))) v
                     then import_from_vue (String ((Ascii (false, true, true,
                            false, true, true, true, false)), (String ((Ascii
                            (true, false, true, true, false, false, true,
                            false)), (String ((Ascii (true, true, true, true,
                            false, true, true, false)), (String ((Ascii
                            (false, false, true, false, false, true, true,
                            false)), (String ((Ascii (true, false, true,
                            false, false, true, true, false)), (String
                            ((Ascii (false, false, true, true, false, true,
                            true, false)), (String ((Ascii (true, true,
                            false, false, false, false, true, false)),
                            (String ((Ascii (false, false, false, true,
                            false, true, true, false)), (String ((Ascii
                            (true, false, true, false, false, true, true,
                            false)), (String ((Ascii (true, true, false,
                            false, false, true, true, false)), (String
                            ((Ascii (true, true, false, true, false, true,
                            true, false)), (String ((Ascii (false, true,
                            false, false, false, true, true, false)), (String
                            ((Ascii (true, true, true, true, false, true,
                            true, false)), (String ((Ascii (false, false,
                            false, true, true, true, true, false)),
                            EmptyString)))))))))))))))))))))))))))) s
                     else if sq (String ((Ascii (false, true, false, false,
                               true, true, true, false)), (String ((Ascii
                               (true, false, false, false, false, true, true,
                               false)), (String ((Ascii (false, false, true,
                               false, false, true, true, false)), (String
                               ((Ascii (true, false, false, true, false,
                               true, true, false)), (String ((Ascii (true,
                               true, true, true, false, true, true, false)),
                               EmptyString)))))))))) v
                          then import_from_vue (String ((Ascii (false, true,
                                 true, false, true, true, true, false)),
                                 (String ((Ascii (true, false, true, true,
                                 false, false, true, false)), (String ((Ascii
                                 (true, true, true, true, false, true, true,
                                 false)), (String ((Ascii (false, false,
                                 true, false, false, true, true, false)),
                                 (String ((Ascii (true, false, true, false,
                                 false, true, true, false)), (String ((Ascii
                                 (false, false, true, true, false, true,
                                 true, false)), (String ((Ascii (false, true,
                                 false, false, true, false, true, false)),
                                 (String ((Ascii (true, false, false, false,
                                 false, true, true, false)), (String ((Ascii
                                 (false, false, true, false, false, true,
                                 true, false)), (String ((Ascii (true, false,
                                 false, true, false, true, true, false)),
                                 (String ((Ascii (true, true, true, true,
                                 false, true, true, false)),
                                 EmptyString)))))))))))))))))))))) s
                          else import_from_vue (String ((Ascii (false, true,
                                 true, false, true, true, true, false)),
                                 (String ((Ascii (true, false, true, true,
                                 false, false, true, false)), (String ((Ascii
                                 (true, true, true, true, false, true, true,
                                 false)), (String ((Ascii (false, false,
                                 true, false, false, true, true, false)),
                                 (String ((Ascii (true, false, true, false,
                                 false, true, true, false)), (String ((Ascii
                                 (false, false, true, true, false, true,
                                 true, false)), (String ((Ascii (false,
                                 false, true, false, true, false, true,
                                 false)), (String ((Ascii (true, false, true,
                                 false, false, true, true, false)), (String
                                 ((Ascii (false, false, false, true, true,
                                 true, true, false)), (String ((Ascii (false,
                                 false, true, false, true, true, true,
                                 false)), EmptyString)))))))))))))))))))) s
                   | _ ->
                     import_from_vue (String ((Ascii (false, true, true,
                       false, true, true, true, false)), (String ((Ascii
                       (true, false, true, true, false, false, true, false)),
                       (String ((Ascii (true, true, true, true, false, true,
                       true, false)), (String ((Ascii (false, false, true,
                       false, false, true, true, false)), (String ((Ascii
                       (true, false, true, false, false, true, true, false)),
                       (String ((Ascii (false, false, true, true, false,
                       true, true, false)), (String ((Ascii (false, false,
                       true, false, false, false, true, false)), (String
                       ((Ascii (true, false, false, true, true, true, true,
                       false)), (String ((Ascii (false, true, true, true,
                       false, true, true, false)), (String ((Ascii (true,
                       false, false, false, false, true, true, false)),
                       (String ((Ascii (true, false, true, true, false, true,
                       true, false)), (String ((Ascii (true, false, false,
                       true, false, true, true, false)), (String ((Ascii
                       (true, true, false, false, false, true, true, false)),
                       EmptyString)))))))))))))))))))))))))) s)
                | None ->
                  import_from_vue (String ((Ascii (false, true, true, false,
                    true, true, true, false)), (String ((Ascii (true, false,
                    true, true, false, false, true, false)), (String ((Ascii
                    (true, true, true, true, false, true, true, false)),
                    (String ((Ascii (false, false, true, false, false, true,
                    true, false)), (String ((Ascii (true, false, true, false,
                    false, true, true, false)), (String ((Ascii (false,
                    false, true, true, false, true, true, false)), (String
                    ((Ascii (false, false, true, false, true, false, true,
                    false)), (String ((Ascii (true, false, true, false,
                    false, true, true, false)), (String ((Ascii (false,
                    false, false, true, true, true, true, false)), (String
                    ((Ascii (false, false, true, false, true, true, true,
                    false)), EmptyString)))))))))))))))))))) s)
             | Num (_, _) ->
               let typ =
                 let rec find = function
                 | [] -> None
                 | n :: r ->
                   (match n with
                    | JAttr (name, v) ->
                      (match name with
                       | IdName k ->
                         if (&&)
                              (sq (String ((Ascii (false, false, true, false,
                                true, true, true, false)), (String ((Ascii
                                (true, false, false, true, true, true, true,
                                false)), (String ((Ascii (false, false,
                                false, false, true, true, true, false)),
                                (String ((Ascii (true, false, true, false,
                                false, true, true, false)),
                                EmptyString)))))))) k) (negb (is_nnull v))
                         then Some v
                         else find r
                       | _ -> find r)
                    | _ -> find r)
                 in find attrs
               in
               (match typ with
                | Some n ->
                  (match n with
                   | Str (v, _) ->
                     if sq (String ((Ascii (true, true, false, false, false,
                          true, true, false)), (String ((Ascii (false, false,
                          false, true, false, true, true, false)), (String
                          ((Ascii (true, false, true, false, false, true,
                          true, false)), (String ((Ascii (true, true, false,
                          false, false, true, true, false)), (String ((Ascii
                          (true, true, false, true, false, true, true,
                          false)), (String ((Ascii (false, true, false,
                          false, false, true, true, false)), (String ((Ascii
                          (true, true, true, true, false, true, true,
                          false)), (String ((Ascii (false, false, false,
                          true, true, true, true, false)),
                          EmptyString)))))))))))))))) v
                     then import_from_vue (String ((Ascii (false, true, true,
                            false, true, true, true, false)), (String ((Ascii
                            (true, false, true, true, false, false, true,
                            false)), (String ((Ascii (true, true, true, true,
                            false, true, true, false)), (String ((Ascii
                            (false, false, true, false, false, true, true,
                            false)), (String ((Ascii (true, false, true,
                            false, false, true, true, false)), (String
                            ((Ascii (false, false, true, true, false, true,
                            true, false)), (String ((Ascii (true, true,
                            false, false, false, false, true, false)),
                            (String ((Ascii (false, false, false, true,
                            false, true, true, false)), (String ((Ascii
                            (true, false, true, false, false, true, true,
                            false)), (String ((Ascii (true, true, false,
                            false, false, true, true, false)), (String
                            ((Ascii (true, true, false, true, false, true,
                            true, false)), (String ((Ascii (false, true,
                            false, false, false, true, true, false)), (String
                            ((Ascii (true, true, true, true, false, true,
                            true, false)), (String ((Ascii (false, false,
                            false, true, true, true, true, false)),
                            EmptyString)))))))))))))))))))))))))))) s
                     else if sq (String ((Ascii (false, true, false, false,
                               true, true, true, false)), (String ((Ascii
                               (true, false, false, false, false, true, true,
                               false)), (String ((Ascii (false, false, true,
                               false, false, true, true, false)), (String
                               ((Ascii (true, false, false, true, false,
                               true, true, false)), (String ((Ascii (true,
                               true, true, true, false, true, true, false)),
                               EmptyString)))))))))) v
                          then import_from_vue (String ((Ascii (false, true,
                                 true, false, true, true, true, false)),
                                 (String ((Ascii (true, false, true, true,
                                 false, false, true, false)), (String ((Ascii
                                 (true, true, true, true, false, true, true,
                                 false)), (String ((Ascii (false, false,
                                 true, false, false, true, true, false)),
                                 (String ((Ascii (true, false, true, false,
                                 false, true, true, false)), (String ((Ascii
                                 (false, false, true, true, false, true,
                                 true, false)), (String ((Ascii (false, true,
                                 false, false, true, false, true, false)),
                                 (String ((Ascii (true, false, false, false,
                                 false, true, true, false)), (String ((Ascii
                                 (false, false, true, false, false, true,
                                 true, false)), (String ((Ascii (true, false,
                                 false, true, false, true, true, false)),
                                 (String ((Ascii (true, true, true, true,
                                 false, true, true, false)),
                                 EmptyString)))))))))))))))))))))) s
                          else import_from_vue (String ((Ascii (false, true,
                                 true, false, true, true, true, false)),
                                 (String ((Ascii (true, false, true, true,
                                 false, false, true, false)), (String ((Ascii
                                 (true, true, true, true, false, true, true,
                                 false)), (String ((Ascii (false, false,
                                 true, false, false, true, true, false)),
                                 (String ((Ascii (true, false, true, false,
                                 false, true, true, false)), (String ((Ascii
                                 (false, false, true, true, false, true,
                                 true, false)), (String ((Ascii (false,
                                 false, true, false, true, false, true,
                                 false)), (String ((Ascii (true, false, true,
                                 false, false, true, true, false)), (String
                                 ((Ascii (false, false, false, true, true,
                                 true, true, false)), (String ((Ascii (false,
                                 false, true, false, true, true, true,
                                 false)), EmptyString)))))))))))))))))))) s
                   | _ ->
                     import_from_vue (String ((Ascii (false, true, true,
                       false, true, true, true, false)), (String ((Ascii
                       (true, false, true, true, false, false, true, false)),
                       (String ((Ascii (true, true, true, true, false, true,
                       true, false)), (String ((Ascii (false, false, true,
                       false, false, true, true, false)), (String ((Ascii
                       (true, false, true, false, false, true, true, false)),
                       (String ((Ascii (false, false, true, true, false,
                       true, true, false)), (String ((Ascii (false, false,
                       true, false, false, false, true, false)), (String
                       ((Ascii (true, false, false, true, true, true, true,
                       false)), (String ((Ascii (false, true, true, true,
                       false, true, true, false)), (String ((Ascii (true,
                       false, false, false, false, true, true, false)),
                       (String ((Ascii (true, false, true, true, false, true,
                       true, false)), (String ((Ascii (true, false, false,
                       true, false, true, true, false)), (String ((Ascii
                       (true, true, false, false, false, true, true, false)),
                       EmptyString)))))))))))))))))))))))))) s)
                | None ->
                  import_from_vue (String ((Ascii (false, true, true, false,
                    true, true, true, false)), (String ((Ascii (true, false,
                    true, true, false, false, true, false)), (String ((Ascii
                    (true, true, true, true, false, true, true, false)),
                    (String ((Ascii (false, false, true, false, false, true,
                    true, false)), (String ((Ascii (true, false, true, false,
                    false, true, true, false)), (String ((Ascii (false,
                    false, true, true, false, true, true, false)), (String
                    ((Ascii (false, false, true, false, true, false, true,
                    false)), (String ((Ascii (true, false, true, false,
                    false, true, true, false)), (String ((Ascii (false,
                    false, false, true, true, true, true, false)), (String
                    ((Ascii (false, false, true, false, true, true, true,
                    false)), EmptyString)))))))))))))))))))) s)
             | Bool _ ->
               let typ =
                 let rec find = function
                 | [] -> None
                 | n :: r ->
                   (match n with
                    | JAttr (name, v) ->
                      (match name with
                       | IdName k ->
                         if (&&)
                              (sq (String ((Ascii (false, false, true, false,
                                true, true, true, false)), (String ((Ascii
                                (true, false, false, true, true, true, true,
                                false)), (String ((Ascii (false, false,
                                false, false, true, true, true, false)),
                                (String ((Ascii (true, false, true, false,
                                false, true, true, false)),
                                EmptyString)))))))) k) (negb (is_nnull v))
                         then Some v
                         else find r
                       | _ -> find r)
                    | _ -> find r)
                 in find attrs
               in
               (match typ with
                | Some n ->
                  (match n with
                   | Str (v, _) ->
                     if sq (String ((Ascii (true, true, false, false, false,
                          true, true, false)), (String ((Ascii (false, false,
                          false, true, false, true, true, false)), (String
                          ((Ascii (true, false, true, false, false, true,
                          true, false)), (String ((Ascii (true, true, false,
                          false, false, true, true, false)), (String ((Ascii
                          (true, true, false, true, false, true, true,
                          false)), (String ((Ascii (false, true, false,
                          false, false, true, true, false)), (String ((Ascii
                          (true, true, true, true, false, true, true,
                          false)), (String ((Ascii (false, false, false,
                          true, true, true, true, false)),
                          EmptyString)))))))))))))))) v
                     then import_from_vue (String ((Ascii (false, true, true,
                            false, true, true, true, false)), (String ((Ascii
                            (true, false, true, true, false, false, true,
                            false)), (String ((Ascii (true, true, true, true,
                            false, true, true, false)), (String ((Ascii
                            (false, false, true, false, false, true, true,
                            false)), (String ((Ascii (true, false, true,
                            false, false, true, true, false)), (String
                            ((Ascii (false, false, true, true, false, true,
                            true, false)), (String ((Ascii (true, true,
                            false, false, false, false, true, false)),
                            (String ((Ascii (false, false, false, true,
                            false, true, true, false)), (String ((Ascii
                            (true, false, true, false, false, true, true,
                            false)), (String ((Ascii (true, true, false,
                            false, false, true, true, false)), (String
                            ((Ascii (true, true, false, true, false, true,
                            true, false)), (String ((Ascii (false, true,
                            false, false, false, true, true, false)), (String
                            ((Ascii (true, true, true, true, false, true,
                            true, false)), (String ((Ascii (false, false,
                            false, true, true, true, true, false)),
                            EmptyString)))))))))))))))))))))))))))) s
                     else if sq (String ((Ascii (false, true, false, false,
                               true, true, true, false)), (String ((Ascii
                               (true, false, false, false, false, true, true,
                               false)), (String ((Ascii (false, false, true,
                               false, false, true, true, false)), (String
                               ((Ascii (true, false, false, true, false,
                               true, true, false)), (String ((Ascii (true,
                               true, true, true, false, true, true, false)),
                               EmptyString)))))))))) v
                          then import_from_vue (String ((Ascii (false, true,
                                 true, false, true, true, true, false)),
                                 (String ((Ascii (true, false, true, true,
                                 false, false, true, false)), (String ((Ascii
                                 (true, true, true, true, false, true, true,
                                 false)), (String ((Ascii (false, false,
                                 true, false, false, true, true, false)),
                                 (String ((Ascii (true, false, true, false,
                                 false, true, true, false)), (String ((Ascii
                                 (false, false, true, true, false, true,
                                 true, false)), (String ((Ascii (false, true,
                                 false, false, true, false, true, false)),
                                 (String ((Ascii (true, false, false, false,
                                 false, true, true, false)), (String ((Ascii
                                 (false, false, true, false, false, true,
                                 true, false)), (String ((Ascii (true, false,
                                 false, true, false, true, true, false)),
                                 (String ((Ascii (true, true, true, true,
                                 false, true, true, false)),
                                 EmptyString)))))))))))))))))))))) s
                          else import_from_vue (String ((Ascii (false, true,
                                 true, false, true, true, true, false)),
                                 (String ((Ascii (true, false, true, true,
                                 false, false, true, false)), (String ((Ascii
                                 (true, true, true, true, false, true, true,
                                 false)), (String ((Ascii (false, false,
                                 true, false, false, true, true, false)),
                                 (String ((Ascii (true, false, true, false,
                                 false, true, true, false)), (String ((Ascii
                                 (false, false, true, true, false, true,
                                 true, false)), (String ((Ascii (false,
                                 false, true, false, true, false, true,
                                 false)), (String ((Ascii (true, false, true,
                                 false, false, true, true, false)), (String
                                 ((Ascii (false, false, false, true, true,
                                 true, true, false)), (String ((Ascii (false,
                                 false, true, false, true, true, true,
                                 false)), EmptyString)))))))))))))))))))) s
                   | _ ->
                     import_from_vue (String ((Ascii (false, true, true,
                       false, true, true, true, false)), (String ((Ascii
                       (true, false, true, true, false, false, true, false)),
                       (String ((Ascii (true, true, true, true, false, true,
                       true, false)), (String ((Ascii (false, false, true,
                       false, false, true, true, false)), (String ((Ascii
                       (true, false, true, false, false, true, true, false)),
                       (String ((Ascii (false, false, true, true, false,
                       true, true, false)), (String ((Ascii (false, false,
                       true, false, false, false, true, false)), (String
                       ((Ascii (true, false, false, true, true, true, true,
                       false)), (String ((Ascii (false, true, true, true,
                       false, true, true, false)), (String ((Ascii (true,
                       false, false, false, false, true, true, false)),
                       (String ((Ascii (true, false, true, true, false, true,
                       true, false)), (String ((Ascii (true, false, false,
                       true, false, true, true, false)), (String ((Ascii
                       (true, true, false, false, false, true, true, false)),
                       EmptyString)))))))))))))))))))))))))) s)
                | None ->
                  import_from_vue (String ((Ascii (false, true, true, false,
                    true, true, true, false)), (String ((Ascii (true, false,
                    true, true, false, false, true, false)), (String ((Ascii
                    (true, true, true, true, false, true, true, false)),
                    (String ((Ascii (false, false, true, false, false, true,
                    true, false)), (String ((Ascii (true, false, true, false,
                    false, true, true, false)), (String ((Ascii (false,
                    false, true, true, false, true, true, false)), (String
                    ((Ascii (false, false, true, false, true, false, true,
                    false)), (String ((Ascii (true, false, true, false,
                    false, true, true, false)), (String ((Ascii (false,
                    false, false, true, true, true, true, false)), (String
                    ((Ascii (false, false, true, false, true, true, true,
                    false)), EmptyString)))))))))))))))))))) s)
             | Null ->
               let typ =
                 let rec find = function
                 | [] -> None
                 | n :: r ->
                   (match n with
                    | JAttr (name, v) ->
                      (match name with
                       | IdName k ->
                         if (&&)
                              (sq (String ((Ascii (false, false, true, false,
                                true, true, true, false)), (String ((Ascii
                                (true, false, false, true, true, true, true,
                                false)), (String ((Ascii (false, false,
                                false, false, true, true, true, false)),
                                (String ((Ascii (true, false, true, false,
                                false, true, true, false)),
                                EmptyString)))))))) k) (negb (is_nnull v))
                         then Some v
                         else find r
                       | _ -> find r)
                    | _ -> find r)
                 in find attrs
               in
               (match typ with
                | Some n ->
                  (match n with
                   | Str (v, _) ->
                     if sq (String ((Ascii (true, true, false, false, false,
                          true, true, false)), (String ((Ascii (false, false,
                          false, true, false, true, true, false)), (String
                          ((Ascii (true, false, true, false, false, true,
                          true, false)), (String ((Ascii (true, true, false,
                          false, false, true, true, false)), (String ((Ascii
                          (true, true, false, true, false, true, true,
                          false)), (String ((Ascii (false, true, false,
                          false, false, true, true, false)), (String ((Ascii
                          (true, true, true, true, false, true, true,
                          false)), (String ((Ascii (false, false, false,
                          true, true, true, true, false)),
                          EmptyString)))))))))))))))) v
                     then import_from_vue (String ((Ascii (false, true, true,
                            false, true, true, true, false)), (String ((Ascii
                            (true, false, true, true, false, false, true,
                            false)), (String ((Ascii (true, true, true, true,
                            false, true, true, false)), (String ((Ascii
                            (false, false, true, false, false, true, true,
                            false)), (String ((Ascii (true, false, true,
                            false, false, true, true, false)), (String
                            ((Ascii (false, false, true, true, false, true,
                            true, false)), (String ((Ascii (true, true,
                            false, false, false, false, true, false)),
                            (String ((Ascii (false, false, false, true,
                            false, true, true, false)), (String ((Ascii
                            (true, false, true, false, false, true, true,
                            false)), (String ((Ascii (true, true, false,
                            false, false, true, true, false)), (String
                            ((Ascii (true, true, false, true, false, true,
                            true, false)), (String ((Ascii (false, true,
                            false, false, false, true, true, false)), (String
                            ((Ascii (true, true, true, true, false, true,
                            true, false)), (String ((Ascii (false, false,
                            false, true, true, true, true, false)),
                            EmptyString)))))))))))))))))))))))))))) s
                     else if sq (String ((Ascii (false, true, false, false,
                               true, true, true, false)), (String ((Ascii
                               (true, false, false, false, false, true, true,
                               false)), (String ((Ascii (false, false, true,
                               false, false, true, true, false)), (String
                               ((Ascii (true, false, false, true, false,
                               true, true, false)), (String ((Ascii (true,
                               true, true, true, false, true, true, false)),
                               EmptyString)))))))))) v
                          then import_from_vue (String ((Ascii (false, true,
                                 true, false, true, true, true, false)),
                                 (String ((Ascii (true, false, true, true,
                                 false, false, true, false)), (String ((Ascii
                                 (true, true, true, true, false, true, true,
                                 false)), (String ((Ascii (false, false,
                                 true, false, false, true, true, false)),
                                 (String ((Ascii (true, false, true, false,
                                 false, true, true, false)), (String ((Ascii
                                 (false, false, true, true, false, true,
                                 true, false)), (String ((Ascii (false, true,
                                 false, false, true, false, true, false)),
                                 (String ((Ascii (true, false, false, false,
                                 false, true, true, false)), (String ((Ascii
                                 (false, false, true, false, false, true,
                                 true, false)), (String ((Ascii (true, false,
                                 false, true, false, true, true, false)),
                                 (String ((Ascii (true, true, true, true,
                                 false, true, true, false)),
                                 EmptyString)))))))))))))))))))))) s
                          else import_from_vue (String ((Ascii (false, true,
                                 true, false, true, true, true, false)),
                                 (String ((Ascii (true, false, true, true,
                                 false, false, true, false)), (String ((Ascii
                                 (true, true, true, true, false, true, true,
                                 false)), (String ((Ascii (false, false,
                                 true, false, false, true, true, false)),
                                 (String ((Ascii (true, false, true, false,
                                 false, true, true, false)), (String ((Ascii
                                 (false, false, true, true, false, true,
                                 true, false)), (String ((Ascii (false,
                                 false, true, false, true, false, true,
                                 false)), (String ((Ascii (true, false, true,
                                 false, false, true, true, false)), (String
                                 ((Ascii (false, false, false, true, true,
                                 true, true, false)), (String ((Ascii (false,
                                 false, true, false, true, true, true,
                                 false)), EmptyString)))))))))))))))))))) s
                   | _ ->
                     import_from_vue (String ((Ascii (false, true, true,
                       false, true, true, true, false)), (String ((Ascii
                       (true, false, true, true, false, false, true, false)),
                       (String ((Ascii (true, true, true, true, false, true,
                       true, false)), (String ((Ascii (false, false, true,
                       false, false, true, true, false)), (String ((Ascii
                       (true, false, true, false, false, true, true, false)),
                       (String ((Ascii (false, false, true, true, false,
                       true, true, false)), (String ((Ascii (false, false,
                       true, false, false, false, true, false)), (String
                       ((Ascii (true, false, false, true, true, true, true,
                       false)), (String ((Ascii (false, true, true, true,
                       false, true, true, false)), (String ((Ascii (true,
                       false, false, false, false, true, true, false)),
                       (String ((Ascii (true, false, true, true, false, true,
                       true, false)), (String ((Ascii (true, false, false,
                       true, false, true, true, false)), (String ((Ascii
                       (true, true, false, false, false, true, true, false)),
                       EmptyString)))))))))))))))))))))))))) s)
                | None ->
                  import_from_vue (String ((Ascii (false, true, true, false,
                    true, true, true, false)), (String ((Ascii (true, false,
                    true, true, false, false, true, false)), (String ((Ascii
                    (true, true, true, true, false, true, true, false)),
                    (String ((Ascii (false, false, true, false, false, true,
                    true, false)), (String ((Ascii (true, false, true, false,
                    false, true, true, false)), (String ((Ascii (false,
                    false, true, true, false, true, true, false)), (String
                    ((Ascii (false, false, true, false, true, false, true,
                    false)), (String ((Ascii (true, false, true, false,
                    false, true, true, false)), (String ((Ascii (false,
                    false, false, true, true, true, true, false)), (String
                    ((Ascii (false, false, true, false, true, true, true,
                    false)), EmptyString)))))))))))))))))))) s)
             | Arr _ ->
               let typ =
                 let rec find = function
                 | [] -> None
                 | n :: r ->
                   (match n with
                    | JAttr (name, v) ->
                      (match name with
                       | IdName k ->
                         if (&&)
                              (sq (String ((Ascii (false, false, true, false,
                                true, true, true, false)), (String ((Ascii
                                (true, false, false, true, true, true, true,
                                false)), (String ((Ascii (false, false,
                                false, false, true, true, true, false)),
                                (String ((Ascii (true, false, true, false,
                                false, true, true, false)),
                                EmptyString)))))))) k) (negb (is_nnull v))
                         then Some v
                         else find r
                       | _ -> find r)
                    | _ -> find r)
                 in find attrs
               in
               (match typ with
                | Some n ->
                  (match n with
                   | Str (v, _) ->
                     if sq (String ((Ascii (true, true, false, false, false,
                          true, true, false)), (String ((Ascii (false, false,
                          false, true, false, true, true, false)), (String
                          ((Ascii (true, false, true, false, false, true,
                          true, false)), (String ((Ascii (true, true, false,
                          false, false, true, true, false)), (String ((Ascii
                          (true, true, false, true, false, true, true,
                          false)), (String ((Ascii (false, true, false,
                          false, false, true, true, false)), (String ((Ascii
                          (true, true, true, true, false, true, true,
                          false)), (String ((Ascii (false, false, false,
                          true, true, true, true, false)),
                          EmptyString)))))))))))))))) v
                     then import_from_vue (String ((Ascii (false, true, true,
                            false, true, true, true, false)), (String ((Ascii
                            (true, false, true, true, false, false, true,
                            false)), (String ((Ascii (true, true, true, true,
                            false, true, true, false)), (String ((Ascii
                            (false, false, true, false, false, true, true,
                            false)), (String ((Ascii (true, false, true,
                            false, false, true, true, false)), (String
                            ((Ascii (false, false, true, true, false, true,
                            true, false)), (String ((Ascii (true, true,
                            false, false, false, false, true, false)),
                            (String ((Ascii (false, false, false, true,
                            false, true, true, false)), (String ((Ascii
                            (true, false, true, false, false, true, true,
                            false)), (String ((Ascii (true, true, false,
                            false, false, true, true, false)), (String
                            ((Ascii (true, true, false, true, false, true,
                            true, false)), (String ((Ascii (false, true,
                            false, false, false, true, true, false)), (String
                            ((Ascii (true, true, true, true, false, true,
                            true, false)), (String ((Ascii (false, false,
                            false, true, true, true, true, false)),
                            EmptyString)))))))))))))))))))))))))))) s
                     else if sq (String ((Ascii (false, true, false, false,
                               true, true, true, false)), (String ((Ascii
                               (true, false, false, false, false, true, true,
                               false)), (String ((Ascii (false, false, true,
                               false, false, true, true, false)), (String
                               ((Ascii (true, false, false, true, false,
                               true, true, false)), (String ((Ascii (true,
                               true, true, true, false, true, true, false)),
                               EmptyString)))))))))) v
                          then import_from_vue (String ((Ascii (false, true,
                                 true, false, true, true, true, false)),
                                 (String ((Ascii (true, false, true, true,
                                 false, false, true, false)), (String ((Ascii
                                 (true, true, true, true, false, true, true,
                                 false)), (String ((Ascii (false, false,
                                 true, false, false, true, true, false)),
                                 (String ((Ascii (true, false, true, false,
                                 false, true, true, false)), (String ((Ascii
                                 (false, false, true, true, false, true,
                                 true, false)), (String ((Ascii (false, true,
                                 false, false, true, false, true, false)),
                                 (String ((Ascii (true, false, false, false,
                                 false, true, true, false)), (String ((Ascii
                                 (false, false, true, false, false, true,
                                 true, false)), (String ((Ascii (true, false,
                                 false, true, false, true, true, false)),
                                 (String ((Ascii (true, true, true, true,
                                 false, true, true, false)),
                                 EmptyString)))))))))))))))))))))) s
                          else import_from_vue (String ((Ascii (false, true,
                                 true, false, true, true, true, false)),
                                 (String ((Ascii (true, false, true, true,
                                 false, false, true, false)), (String ((Ascii
                                 (true, true, true, true, false, true, true,
                                 false)), (String ((Ascii (false, false,
                                 true, false, false, true, true, false)),
                                 (String ((Ascii (true, false, true, false,
                                 false, true, true, false)), (String ((Ascii
                                 (false, false, true, true, false, true,
                                 true, false)), (String ((Ascii (false,
                                 false, true, false, true, false, true,
                                 false)), (String ((Ascii (true, false, true,
                                 false, false, true, true, false)), (String
                                 ((Ascii (false, false, false, true, true,
                                 true, true, false)), (String ((Ascii (false,
                                 false, true, false, true, true, true,
                                 false)), EmptyString)))))))))))))))))))) s
                   | _ ->
                     import_from_vue (String ((Ascii (false, true, true,
                       false, true, true, true, false)), (String ((Ascii
                       (true, false, true, true, false, false, true, false)),
                       (String ((Ascii (true, true, true, true, false, true,
                       true, false)), (String ((Ascii (false, false, true,
                       false, false, true, true, false)), (String ((Ascii
                       (true, false, true, false, false, true, true, false)),
                       (String ((Ascii (false, false, true, true, false,
                       true, true, false)), (String ((Ascii (false, false,
                       true, false, false, false, true, false)), (String
                       ((Ascii (true, false, false, true, true, true, true,
                       false)), (String ((Ascii (false, true, true, true,
                       false, true, true, false)), (String ((Ascii (true,
                       false, false, false, false, true, true, false)),
                       (String ((Ascii (true, false, true, true, false, true,
                       true, false)), (String ((Ascii (true, false, false,
                       true, false, true, true, false)), (String ((Ascii
                       (true, true, false, false, false, true, true, false)),
                       EmptyString)))))))))))))))))))))))))) s)
                | None ->
                  import_from_vue (String ((Ascii (false, true, true, false,
                    true, true, true, false)), (String ((Ascii (true, false,
                    true, true, false, false, true, false)), (String ((Ascii
                    (true, true, true, true, false, true, true, false)),
                    (String ((Ascii (false, false, true, false, false, true,
                    true, false)), (String ((Ascii (true, false, true, false,
                    false, true, true, false)), (String ((Ascii (false,
                    false, true, true, false, true, true, false)), (String
                    ((Ascii (false, false, true, false, true, false, true,
                    false)), (String ((Ascii (true, false, true, false,
                    false, true, true, false)), (String ((Ascii (false,
                    false, false, true, true, true, true, false)), (String
                    ((Ascii (false, false, true, false, true, true, true,
                    false)), EmptyString)))))))))))))))))))) s)
             | Elem (_, _) ->
               let typ =
                 let rec find = function
                 | [] -> None
                 | n :: r ->
                   (match n with
                    | JAttr (name, v) ->
                      (match name with
                       | IdName k ->
                         if (&&)
                              (sq (String ((Ascii (false, false, true, false,
                                true, true, true, false)), (String ((Ascii
                                (true, false, false, true, true, true, true,
                                false)), (String ((Ascii (false, false,
                                false, false, true, true, true, false)),
                                (String ((Ascii (true, false, true, false,
                                false, true, true, false)),
                                EmptyString)))))))) k) (negb (is_nnull v))
                         then Some v
                         else find r
                       | _ -> find r)
                    | _ -> find r)
                 in find attrs
               in
               (match typ with
                | Some n ->
                  (match n with
                   | Str (v, _) ->
                     if sq (String ((Ascii (true, true, false, false, false,
                          true, true, false)), (String ((Ascii (false, false,
                          false, true, false, true, true, false)), (String
                          ((Ascii (true, false, true, false, false, true,
                          true, false)), (String ((Ascii (true, true, false,
                          false, false, true, true, false)), (String ((Ascii
                          (true, true, false, true, false, true, true,
                          false)), (String ((Ascii (false, true, false,
                          false, false, true, true, false)), (String ((Ascii
                          (true, true, true, true, false, true, true,
                          false)), (String ((Ascii (false, false, false,
                          true, true, true, true, false)),
                          EmptyString)))))))))))))))) v
                     then import_from_vue (String ((Ascii (false, true, true,
                            false, true, true, true, false)), (String ((Ascii
                            (true, false, true, true, false, false, true,
                            false)), (String ((Ascii (true, true, true, true,
                            false, true, true, false)), (String ((Ascii
                            (false, false, true, false, false, true, true,
                            false)), (String ((Ascii (true, false, true,
                            false, false, true, true, false)), (String
                            ((Ascii (false, false, true, true, false, true,
                            true, false)), (String ((Ascii (true, true,
                            false, false, false, false, true, false)),
                            (String ((Ascii (false, false, false, true,
                            false, true, true, false)), (String ((Ascii
                            (true, false, true, false, false, true, true,
                            false)), (String ((Ascii (true, true, false,
                            false, false, true, true, false)), (String
                            ((Ascii (true, true, false, true, false, true,
                            true, false)), (String ((Ascii (false, true,
                            false, false, false, true, true, false)), (String
                            ((Ascii (true, true, true, true, false, true,
                            true, false)), (String ((Ascii (false, false,
                            false, true, true, true, true, false)),
                            EmptyString)))))))))))))))))))))))))))) s
                     else if sq (String ((Ascii (false, true, false, false,
                               true, true, true, false)), (String ((Ascii
                               (true, false, false, false, false, true, true,
                               false)), (String ((Ascii (false, false, true,
                               false, false, true, true, false)), (String
                               ((Ascii (true, false, false, true, false,
                               true, true, false)), (String ((Ascii (true,
                               true, true, true, false, true, true, false)),
                               EmptyString)))))))))) v
                          then import_from_vue (String ((Ascii (false, true,
                                 true, false, true, true, true, false)),
                                 (String ((Ascii (true, false, true, true,
                                 false, false, true, false)), (String ((Ascii
                                 (true, true, true, true, false, true, true,
                                 false)), (String ((Ascii (false, false,
                                 true, false, false, true, true, false)),
                                 (String ((Ascii (true, false, true, false,
                                 false, true, true, false)), (String ((Ascii
                                 (false, false, true, true, false, true,
                                 true, false)), (String ((Ascii (false, true,
                                 false, false, true, false, true, false)),
                                 (String ((Ascii (true, false, false, false,
                                 false, true, true, false)), (String ((Ascii
                                 (false, false, true, false, false, true,
                                 true, false)), (String ((Ascii (true, false,
                                 false, true, false, true, true, false)),
                                 (String ((Ascii (true, true, true, true,
                                 false, true, true, false)),
                                 EmptyString)))))))))))))))))))))) s
                          else import_from_vue (String ((Ascii (false, true,
                                 true, false, true, true, true, false)),
                                 (String ((Ascii (true, false, true, true,
                                 false, false, true, false)), (String ((Ascii
                                 (true, true, true, true, false, true, true,
                                 false)), (String ((Ascii (false, false,
                                 true, false, false, true, true, false)),
                                 (String ((Ascii (true, false, true, false,
                                 false, true, true, false)), (String ((Ascii
                                 (false, false, true, true, false, true,
                                 true, false)), (String ((Ascii (false,
                                 false, true, false, true, false, true,
                                 false)), (String ((Ascii (true, false, true,
                                 false, false, true, true, false)), (String
                                 ((Ascii (false, false, false, true, true,
                                 true, true, false)), (String ((Ascii (false,
                                 false, true, false, true, true, true,
                                 false)), EmptyString)))))))))))))))))))) s
                   | _ ->
                     import_from_vue (String ((Ascii (false, true, true,
                       false, true, true, true, false)), (String ((Ascii
                       (true, false, true, true, false, false, true, false)),
                       (String ((Ascii (true, true, true, true, false, true,
                       true, false)), (String ((Ascii (false, false, true,
                       false, false, true, true, false)), (String ((Ascii
                       (true, false, true, false, false, true, true, false)),
                       (String ((Ascii (false, false, true, true, false,
                       true, true, false)), (String ((Ascii (false, false,
                       true, false, false, false, true, false)), (String
                       ((Ascii (true, false, false, true, true, true, true,
                       false)), (String ((Ascii (false, true, true, true,
                       false, true, true, false)), (String ((Ascii (true,
                       false, false, false, false, true, true, false)),
                       (String ((Ascii (true, false, true, true, false, true,
                       true, false)), (String ((Ascii (true, false, false,
                       true, false, true, true, false)), (String ((Ascii
                       (true, true, false, false, false, true, true, false)),
                       EmptyString)))))))))))))))))))))))))) s)
                | None ->
                  import_from_vue (String ((Ascii (false, true, true, false,
                    true, true, true, false)), (String ((Ascii (true, false,
                    true, true, false, false, true, false)), (String ((Ascii
                    (true, true, true, true, false, true, true, false)),
                    (String ((Ascii (false, false, true, false, false, true,
                    true, false)), (String ((Ascii (true, false, true, false,
                    false, true, true, false)), (String ((Ascii (false,
                    false, true, true, false, true, true, false)), (String
                    ((Ascii (false, false, true, false, true, false, true,
                    false)), (String ((Ascii (true, false, true, false,
                    false, true, true, false)), (String ((Ascii (false,
                    false, false, true, true, true, true, false)), (String
                    ((Ascii (false, false, true, false, true, true, true,
                    false)), EmptyString)))))))))))))))))))) s)
             | Hole ->
               let typ =
                 let rec find = function
                 | [] -> None
                 | n :: r ->
                   (match n with
                    | JAttr (name, v) ->
                      (match name with
                       | IdName k ->
                         if (&&)
                              (sq (String ((Ascii (false, false, true, false,
                                true, true, true, false)), (String ((Ascii
                                (true, false, false, true, true, true, true,
                                false)), (String ((Ascii (false, false,
                                false, false, true, true, true, false)),
                                (String ((Ascii (true, false, true, false,
                                false, true, true, false)),
                                EmptyString)))))))) k) (negb (is_nnull v))
                         then Some v
                         else find r
                       | _ -> find r)
                    | _ -> find r)
                 in find attrs
               in
               (match typ with
                | Some n ->
                  (match n with
                   | Str (v, _) ->
                     if sq (String ((Ascii (true, true, false, false, false,
                          true, true, false)), (String ((Ascii (false, false,
                          false, true, false, true, true, false)), (String
                          ((Ascii (true, false, true, false, false, true,
                          true, false)), (String ((Ascii (true, true, false,
                          false, false, true, true, false)), (String ((Ascii
                          (true, true, false, true, false, true, true,
                          false)), (String ((Ascii (false, true, false,
                          false, false, true, true, false)), (String ((Ascii
                          (true, true, true, true, false, true, true,
                          false)), (String ((Ascii (false, false, false,
                          true, true, true, true, false)),
                          EmptyString)))))))))))))))) v
                     then import_from_vue (String ((Ascii (false, true, true,
                            false, true, true, true, false)), (String ((Ascii
                            (true, false, true, true, false, false, true,
                            false)), (String ((Ascii (true, true, true, true,
                            false, true, true, false)), (String ((Ascii
                            (false, false, true, false, false, true, true,
                            false)), (String ((Ascii (true, false, true,
                            false, false, true, true, false)), (String
                            ((Ascii (false, false, true, true, false, true,
                            true, false)), (String ((Ascii (true, true,
                            false, false, false, false, true, false)),
                            (String ((Ascii (false, false, false, true,
                            false, true, true, false)), (String ((Ascii
                            (true, false, true, false, false, true, true,
                            false)), (String ((Ascii (true, true, false,
                            false, false, true, true, false)), (String
                            ((Ascii (true, true, false, true, false, true,
                            true, false)), (String ((Ascii (false, true,
                            false, false, false, true, true, false)), (String
                            ((Ascii (true, true, true, true, false, true,
                            true, false)), (String ((Ascii (false, false,
                            false, true, true, true, true, false)),
                            EmptyString)))))))))))))))))))))))))))) s
                     else if sq (String ((Ascii (false, true, false, false,
                               true, true, true, false)), (String ((Ascii
                               (true, false, false, false, false, true, true,
                               false)), (String ((Ascii (false, false, true,
                               false, false, true, true, false)), (String
                               ((Ascii (true, false, false, true, false,
                               true, true, false)), (String ((Ascii (true,
                               true, true, true, false, true, true, false)),
                               EmptyString)))))))))) v
                          then import_from_vue (String ((Ascii (false, true,
                                 true, false, true, true, true, false)),
                                 (String ((Ascii (true, false, true, true,
                                 false, false, true, false)), (String ((Ascii
                                 (true, true, true, true, false, true, true,
                                 false)), (String ((Ascii (false, false,
                                 true, false, false, true, true, false)),
                                 (String ((Ascii (true, false, true, false,
                                 false, true, true, false)), (String ((Ascii
                                 (false, false, true, true, false, true,
                                 true, false)), (String ((Ascii (false, true,
                                 false, false, true, false, true, false)),
                                 (String ((Ascii (true, false, false, false,
                                 false, true, true, false)), (String ((Ascii
                                 (false, false, true, false, false, true,
                                 true, false)), (String ((Ascii (true, false,
                                 false, true, false, true, true, false)),
                                 (String ((Ascii (true, true, true, true,
                                 false, true, true, false)),
                                 EmptyString)))))))))))))))))))))) s
                          else import_from_vue (String ((Ascii (false, true,
                                 true, false, true, true, true, false)),
                                 (String ((Ascii (true, false, true, true,
                                 false, false, true, false)), (String ((Ascii
                                 (true, true, true, true, false, true, true,
                                 false)), (String ((Ascii (false, false,
                                 true, false, false, true, true, false)),
                                 (String ((Ascii (true, false, true, false,
                                 false, true, true, false)), (String ((Ascii
                                 (false, false, true, true, false, true,
                                 true, false)), (String ((Ascii (false,
                                 false, true, false, true, false, true,
                                 false)), (String ((Ascii (true, false, true,
                                 false, false, true, true, false)), (String
                                 ((Ascii (false, false, false, true, true,
                                 true, true, false)), (String ((Ascii (false,
                                 false, true, false, true, true, true,
                                 false)), EmptyString)))))))))))))))))))) s
                   | _ ->
                     import_from_vue (String ((Ascii (false, true, true,
                       false, true, true, true, false)), (String ((Ascii
                       (true, false, true, true, false, false, true, false)),
                       (String ((Ascii (true, true, true, true, false, true,
                       true, false)), (String ((Ascii (false, false, true,
                       false, false, true, true, false)), (String ((Ascii
                       (true, false, true, false, false, true, true, false)),
                       (String ((Ascii (false, false, true, true, false,
                       true, true, false)), (String ((Ascii (false, false,
                       true, false, false, false, true, false)), (String
                       ((Ascii (true, false, false, true, true, true, true,
                       false)), (String ((Ascii (false, true, true, true,
                       false, true, true, false)), (String ((Ascii (true,
                       false, false, false, false, true, true, false)),
                       (String ((Ascii (true, false, true, true, false, true,
                       true, false)), (String ((Ascii (true, false, false,
                       true, false, true, true, false)), (String ((Ascii
                       (true, true, false, false, false, true, true, false)),
                       EmptyString)))))))))))))))))))))))))) s)
                | None ->
                  import_from_vue (String ((Ascii (false, true, true, false,
                    true, true, true, false)), (String ((Ascii (true, false,
                    true, true, false, false, true, false)), (String ((Ascii
                    (true, true, true, true, false, true, true, false)),
                    (String ((Ascii (false, false, true, false, false, true,
                    true, false)), (String ((Ascii (true, false, true, false,
                    false, true, true, false)), (String ((Ascii (false,
                    false, true, true, false, true, true, false)), (String
                    ((Ascii (false, false, true, false, true, false, true,
                    false)), (String ((Ascii (true, false, true, false,
                    false, true, true, false)), (String ((Ascii (false,
                    false, false, true, true, true, true, false)), (String
                    ((Ascii (false, false, true, false, true, true, true,
                    false)), EmptyString)))))))))))))))))))) s)
             | Obj _ ->
               let typ =
                 let rec find = function
                 | [] -> None
                 | n :: r ->
                   (match n with
                    | JAttr (name, v) ->
                      (match name with
                       | IdName k ->
                         if (&&)
                              (sq (String ((Ascii (false, false, true, false,
                                true, true, true, false)), (String ((Ascii
                                (true, false, false, true, true, true, true,
                                false)), (String ((Ascii (false, false,
                                false, false, true, true, true, false)),
                                (String ((Ascii (true, false, true, false,
                                false, true, true, false)),
                                EmptyString)))))))) k) (negb (is_nnull v))
                         then Some v
                         else find r
                       | _ -> find r)
                    | _ -> find r)
                 in find attrs
               in
               (match typ with
                | Some n ->
                  (match n with
                   | Str (v, _) ->
                     if sq (String ((Ascii (true, true, false, false, false,
                          true, true, false)), (String ((Ascii (false, false,
                          false, true, false, true, true, false)), (String
                          ((Ascii (true, false, true, false, false, true,
                          true, false)), (String ((Ascii (true, true, false,
                          false, false, true, true, false)), (String ((Ascii
                          (true, true, false, true, false, true, true,
                          false)), (String ((Ascii (false, true, false,
                          false, false, true, true, false)), (String ((Ascii
                          (true, true, true, true, false, true, true,
                          false)), (String ((Ascii (false, false, false,
                          true, true, true, true, false)),
                          EmptyString)))))))))))))))) v
                     then import_from_vue (String ((Ascii (false, true, true,
                            false, true, true, true, false)), (String ((Ascii
                            (true, false, true, true, false, false, true,
                            false)), (String ((Ascii (true, true, true, true,
                            false, true, true, false)), (String ((Ascii
                            (false, false, true, false, false, true, true,
                            false)), (String ((Ascii (true, false, true,
                            false, false, true, true, false)), (String
                            ((Ascii (false, false, true, true, false, true,
                            true, false)), (String ((Ascii (true, true,
                            false, false, false, false, true, false)),
                            (String ((Ascii (false, false, false, true,
                            false, true, true, false)), (String ((Ascii
                            (true, false, true, false, false, true, true,
                            false)), (String ((Ascii (true, true, false,
                            false, false, true, true, false)), (String
                            ((Ascii (true, true, false, true, false, true,
                            true, false)), (String ((Ascii (false, true,
                            false, false, false, true, true, false)), (String
                            ((Ascii (true, true, true, true, false, true,
                            true, false)), (String ((Ascii (false, false,
                            false, true, true, true, true, false)),
                            EmptyString)))))))))))))))))))))))))))) s
                     else if sq (String ((Ascii (false, true, false, false,
                               true, true, true, false)), (String ((Ascii
                               (true, false, false, false, false, true, true,
                               false)), (String ((Ascii (false, false, true,
                               false, false, true, true, false)), (String
                               ((Ascii (true, false, false, true, false,
                               true, true, false)), (String ((Ascii (true,
                               true, true, true, false, true, true, false)),
                               EmptyString)))))))))) v
                          then import_from_vue (String ((Ascii (false, true,
                                 true, false, true, true, true, false)),
                                 (String ((Ascii (true, false, true, true,
                                 false, false, true, false)), (String ((Ascii
                                 (true, true, true, true, false, true, true,
                                 false)), (String ((Ascii (false, false,
                                 true, false, false, true, true, false)),
                                 (String ((Ascii (true, false, true, false,
                                 false, true, true, false)), (String ((Ascii
                                 (false, false, true, true, false, true,
                                 true, false)), (String ((Ascii (false, true,
                                 false, false, true, false, true, false)),
                                 (String ((Ascii (true, false, false, false,
                                 false, true, true, false)), (String ((Ascii
                                 (false, false, true, false, false, true,
                                 true, false)), (String ((Ascii (true, false,
                                 false, true, false, true, true, false)),
                                 (String ((Ascii (true, true, true, true,
                                 false, true, true, false)),
                                 EmptyString)))))))))))))))))))))) s
                          else import_from_vue (String ((Ascii (false, true,
                                 true, false, true, true, true, false)),
                                 (String ((Ascii (true, false, true, true,
                                 false, false, true, false)), (String ((Ascii
                                 (true, true, true, true, false, true, true,
                                 false)), (String ((Ascii (false, false,
                                 true, false, false, true, true, false)),
                                 (String ((Ascii (true, false, true, false,
                                 false, true, true, false)), (String ((Ascii
                                 (false, false, true, true, false, true,
                                 true, false)), (String ((Ascii (false,
                                 false, true, false, true, false, true,
                                 false)), (String ((Ascii (true, false, true,
                                 false, false, true, true, false)), (String
                                 ((Ascii (false, false, false, true, true,
                                 true, true, false)), (String ((Ascii (false,
                                 false, true, false, true, true, true,
                                 false)), EmptyString)))))))))))))))))))) s
                   | _ ->
                     import_from_vue (String ((Ascii (false, true, true,
                       false, true, true, true, false)), (String ((Ascii
                       (true, false, true, true, false, false, true, false)),
                       (String ((Ascii (true, true, true, true, false, true,
                       true, false)), (String ((Ascii (false, false, true,
                       false, false, true, true, false)), (String ((Ascii
                       (true, false, true, false, false, true, true, false)),
                       (String ((Ascii (false, false, true, true, false,
                       true, true, false)), (String ((Ascii (false, false,
                       true, false, false, false, true, false)), (String
                       ((Ascii (true, false, false, true, true, true, true,
                       false)), (String ((Ascii (false, true, true, true,
                       false, true, true, false)), (String ((Ascii (true,
                       false, false, false, false, true, true, false)),
                       (String ((Ascii (true, false, true, true, false, true,
                       true, false)), (String ((Ascii (true, false, false,
                       true, false, true, true, false)), (String ((Ascii
                       (true, true, false, false, false, true, true, false)),
                       EmptyString)))))))))))))))))))))))))) s)
                | None ->
                  import_from_vue (String ((Ascii (false, true, true, false,
                    true, true, true, false)), (String ((Ascii (true, false,
                    true, true, false, false, true, false)), (String ((Ascii
                    (true, true, true, true, false, true, true, false)),
                    (String ((Ascii (false, false, true, false, false, true,
                    true, false)), (String ((Ascii (true, false, true, false,
                    false, true, true, false)), (String ((Ascii (false,
                    false, true, true, false, true, true, false)), (String
                    ((Ascii (false, false, true, false, true, false, true,
                    false)), (String ((Ascii (true, false, true, false,
                    false, true, true, false)), (String ((Ascii (false,
                    false, false, true, true, true, true, false)), (String
                    ((Ascii (false, false, true, false, true, true, true,
                    false)), EmptyString)))))))))))))))))))) s)
             | KV (_, _) ->
               let typ =
                 let rec find = function
                 | [] -> None
                 | n :: r ->
                   (match n with
                    | JAttr (name, v) ->
                      (match name with
                       | IdName k ->
                         if (&&)
                              (sq (String ((Ascii (false, false, true, false,
                                true, true, true, false)), (String ((Ascii
                                (true, false, false, true, true, true, true,
                                false)), (String ((Ascii (false, false,
                                false, false, true, true, true, false)),
                                (String ((Ascii (true, false, true, false,
                                false, true, true, false)),
                                EmptyString)))))))) k) (negb (is_nnull v))
                         then Some v
                         else find r
                       | _ -> find r)
                    | _ -> find r)
                 in find attrs
               in
               (match typ with
                | Some n ->
                  (match n with
                   | Str (v, _) ->
                     if sq (String ((Ascii (true, true, false, false, false,
                          true, true, false)), (String ((Ascii (false, false,
                          false, true, false, true, true, false)), (String
                          ((Ascii (true, false, true, false, false, true,
                          true, false)), (String ((Ascii (true, true, false,
                          false, false, true, true, false)), (String ((Ascii
                          (true, true, false, true, false, true, true,
                          false)), (String ((Ascii (false, true, false,
                          false, false, true, true, false)), (String ((Ascii
                          (true, true, true, true, false, true, true,
                          false)), (String ((Ascii (false, false, false,
                          true, true, true, true, false)),
                          EmptyString)))))))))))))))) v
                     then import_from_vue (String ((Ascii (false, true, true,
                            false, true, true, true, false)), (String ((Ascii
                            (true, false, true, true, false, false, true,
                            false)), (String ((Ascii (true, true, true, true,
                            false, true, true, false)), (String ((Ascii
                            (false, false, true, false, false, true, true,
                            false)), (String ((Ascii (true, false, true,
                            false, false, true, true, false)), (String
                            ((Ascii (false, false, true, true, false, true,
                            true, false)), (String ((Ascii (true, true,
                            false, false, false, false, true, false)),
                            (String ((Ascii (false, false, false, true,
                            false, true, true, false)), (String ((Ascii
                            (true, false, true, false, false, true, true,
                            false)), (String ((Ascii (true, true, false,
                            false, false, true, true, false)), (String
                            ((Ascii (true, true, false, true, false, true,
                            true, false)), (String ((Ascii (false, true,
                            false, false, false, true, true, false)), (String
                            ((Ascii (true, true, true, true, false, true,
                            true, false)), (String ((Ascii (false, false,
                            false, true, true, true, true, false)),
                            EmptyString)))))))))))))))))))))))))))) s
                     else if sq (String ((Ascii (false, true, false, false,
                               true, true, true, false)), (String ((Ascii
                               (true, false, false, false, false, true, true,
                               false)), (String ((Ascii (false, false, true,
                               false, false, true, true, false)), (String
                               ((Ascii (true, false, false, true, false,
                               true, true, false)), (String ((Ascii (true,
                               true, true, true, false, true, true, false)),
                               EmptyString)))))))))) v
                          then import_from_vue (String ((Ascii (false, true,
                                 true, false, true, true, true, false)),
                                 (String ((Ascii (true, false, true, true,
                                 false, false, true, false)), (String ((Ascii
                                 (true, true, true, true, false, true, true,
                                 false)), (String ((Ascii (false, false,
                                 true, false, false, true, true, false)),
                                 (String ((Ascii (true, false, true, false,
                                 false, true, true, false)), (String ((Ascii
                                 (false, false, true, true, false, true,
                                 true, false)), (String ((Ascii (false, true,
                                 false, false, true, false, true, false)),
                                 (String ((Ascii (true, false, false, false,
                                 false, true, true, false)), (String ((Ascii
                                 (false, false, true, false, false, true,
                                 true, false)), (String ((Ascii (true, false,
                                 false, true, false, true, true, false)),
                                 (String ((Ascii (true, true, true, true,
                                 false, true, true, false)),
                                 EmptyString)))))))))))))))))))))) s
                          else import_from_vue (String ((Ascii (false, true,
                                 true, false, true, true, true, false)),
                                 (String ((Ascii (true, false, true, true,
                                 false, false, true, false)), (String ((Ascii
                                 (true, true, true, true, false, true, true,
                                 false)), (String ((Ascii (false, false,
                                 true, false, false, true, true, false)),
                                 (String ((Ascii (true, false, true, false,
                                 false, true, true, false)), (String ((Ascii
                                 (false, false, true, true, false, true,
                                 true, false)), (String ((Ascii (false,
                                 false, true, false, true, false, true,
                                 false)), (String ((Ascii (true, false, true,
                                 false, false, true, true, false)), (String
                                 ((Ascii (false, false, false, true, true,
                                 true, true, false)), (String ((Ascii (false,
                                 false, true, false, true, true, true,
                                 false)), EmptyString)))))))))))))))))))) s
                   | _ ->
                     import_from_vue (String ((Ascii (false, true, true,
                       false, true, true, true, false)), (String ((Ascii
                       (true, false, true, true, false, false, true, false)),
                       (String ((Ascii (true, true, true, true, false, true,
                       true, false)), (String ((Ascii (false, false, true,
                       false, false, true, true, false)), (String ((Ascii
                       (true, false, true, false, false, true, true, false)),
                       (String ((Ascii (false, false, true, true, false,
                       true, true, false)), (String ((Ascii (false, false,
                       true, false, false, false, true, false)), (String
                       ((Ascii (true, false, false, true, true, true, true,
                       false)), (String ((Ascii (false, true, true, true,
                       false, true, true, false)), (String ((Ascii (true,
                       false, false, false, false, true, true, false)),
                       (String ((Ascii (true, false, true, true, false, true,
                       true, false)), (String ((Ascii (true, false, false,
                       true, false, true, true, false)), (String ((Ascii
                       (true, true, false, false, false, true, true, false)),
                       EmptyString)))))))))))))))))))))))))) s)
                | None ->
                  import_from_vue (String ((Ascii (false, true, true, false,
                    true, true, true, false)), (String ((Ascii (true, false,
                    true, true, false, false, true, false)), (String ((Ascii
                    (true, true, true, true, false, true, true, false)),
                    (String ((Ascii (false, false, true, false, false, true,
                    true, false)), (String ((Ascii (true, false, true, false,
                    false, true, true, false)), (String ((Ascii (false,
                    false, true, true, false, true, true, false)), (String
                    ((Ascii (false, false, true, false, true, false, true,
                    false)), (String ((Ascii (true, false, true, false,
                    false, true, true, false)), (String ((Ascii (false,
                    false, false, true, true, true, true, false)), (String
                    ((Ascii (false, false, true, false, true, true, true,
                    false)), EmptyString)))))))))))))))))))) s)
             | Computed _ ->
               let typ =
                 let rec find = function
                 | [] -> None
                 | n :: r ->
                   (match n with
                    | JAttr (name, v) ->
                      (match name with
                       | IdName k ->
                         if (&&)
                              (sq (String ((Ascii (false, false, true, false,
                                true, true, true, false)), (String ((Ascii
                                (true, false, false, true, true, true, true,
                                false)), (String ((Ascii (false, false,
                                false, false, true, true, true, false)),
                                (String ((Ascii (true, false, true, false,
                                false, true, true, false)),
                                EmptyString)))))))) k) (negb (is_nnull v))
                         then Some v
                         else find r
                       | _ -> find r)
                    | _ -> find r)
                 in find attrs
               in
               (match typ with
                | Some n ->
                  (match n with
                   | Str (v, _) ->
                     if sq (String ((Ascii (true, true, false, false, false,
                          true, true, false)), (String ((Ascii (false, false,
                          false, true, false, true, true, false)), (String
                          ((Ascii (true, false, true, false, false, true,
                          true, false)), (String ((Ascii (true, true, false,
                          false, false, true, true, false)), (String ((Ascii
                          (true, true, false, true, false, true, true,
                          false)), (String ((Ascii (false, true, false,
                          false, false, true, true, false)), (String ((Ascii
                          (true, true, true, true, false, true, true,
                          false)), (String ((Ascii (false, false, false,
                          true, true, true, true, false)),
                          EmptyString)))))))))))))))) v
                     then import_from_vue (String ((Ascii (false, true, true,
                            false, true, true, true, false)), (String ((Ascii
                            (true, false, true, true, false, false, true,
                            false)), (String ((Ascii (true, true, true, true,
                            false, true, true, false)), (String ((Ascii
                            (false, false, true, false, false, true, true,
                            false)), (String ((Ascii (true, false, true,
                            false, false, true, true, false)), (String
                            ((Ascii (false, false, true, true, false, true,
                            true, false)), (String ((Ascii (true, true,
                            false, false, false, false, true, false)),
                            (String ((Ascii (false, false, false, true,
                            false, true, true, false)), (String ((Ascii
                            (true, false, true, false, false, true, true,
                            false)), (String ((Ascii (true, true, false,
                            false, false, true, true, false)), (String
                            ((Ascii (true, true, false, true, false, true,
                            true, false)), (String ((Ascii (false, true,
                            false, false, false, true, true, false)), (String
                            ((Ascii (true, true, true, true, false, true,
                            true, false)), (String ((Ascii (false, false,
                            false, true, true, true, true, false)),
                            EmptyString)))))))))))))))))))))))))))) s
                     else if sq (String ((Ascii (false, true, false, false,
                               true, true, true, false)), (String ((Ascii
                               (true, false, false, false, false, true, true,
                               false)), (String ((Ascii (false, false, true,
                               false, false, true, true, false)), (String
                               ((Ascii (true, false, false, true, false,
                               true, true, false)), (String ((Ascii (true,
                               true, true, true, false, true, true, false)),
                               EmptyString)))))))))) v
                          then import_from_vue (String ((Ascii (false, true,
                                 true, false, true, true, true, false)),
                                 (String ((Ascii (true, false, true, true,
                                 false, false, true, false)), (String ((Ascii
                                 (true, true, true, true, false, true, true,
                                 false)), (String ((Ascii (false, false,
                                 true, false, false, true, true, false)),
                                 (String ((Ascii (true, false, true, false,
                                 false, true, true, false)), (String ((Ascii
                                 (false, false, true, true, false, true,
                                 true, false)), (String ((Ascii (false, true,
                                 false, false, true, false, true, false)),
                                 (String ((Ascii (true, false, false, false,
                                 false, true, true, false)), (String ((Ascii
                                 (false, false, true, false, false, true,
                                 true, false)), (String ((Ascii (true, false,
                                 false, true, false, true, true, false)),
                                 (String ((Ascii (true, true, true, true,
                                 false, true, true, false)),
                                 EmptyString)))))))))))))))))))))) s
                          else import_from_vue (String ((Ascii (false, true,
                                 true, false, true, true, true, false)),
                                 (String ((Ascii (true, false, true, true,
                                 false, false, true, false)), (String ((Ascii
                                 (true, true, true, true, false, true, true,
                                 false)), (String ((Ascii (false, false,
                                 true, false, false, true, true, false)),
                                 (String ((Ascii (true, false, true, false,
                                 false, true, true, false)), (String ((Ascii
                                 (false, false, true, true, false, true,
                                 true, false)), (String ((Ascii (false,
                                 false, true, false, true, false, true,
                                 false)), (String ((Ascii (true, false, true,
                                 false, false, true, true, false)), (String
                                 ((Ascii (false, false, false, true, true,
                                 true, true, false)), (String ((Ascii (false,
                                 false, true, false, true, true, true,
                                 false)), EmptyString)))))))))))))))))))) s
                   | _ ->
                     import_from_vue (String ((Ascii (false, true, true,
                       false, true, true, true, false)), (String ((Ascii
                       (true, false, true, true, false, false, true, false)),
                       (String ((Ascii (true, true, true, true, false, true,
                       true, false)), (String ((Ascii (false, false, true,
                       false, false, true, true, false)), (String ((Ascii
                       (true, false, true, false, false, true, true, false)),
                       (String ((Ascii (false, false, true, true, false,
                       true, true, false)), (String ((Ascii (false, false,
                       true, false, false, false, true, false)), (String
                       ((Ascii (true, false, false, true, true, true, true,
                       false)), (String ((Ascii (false, true, true, true,
                       false, true, true, false)), (String ((Ascii (true,
                       false, false, false, false, true, true, false)),
                       (String ((Ascii (true, false, true, true, false, true,
                       true, false)), (String ((Ascii (true, false, false,
                       true, false, true, true, false)), (String ((Ascii
                       (true, true, false, false, false, true, true, false)),
                       EmptyString)))))))))))))))))))))))))) s)
                | None ->
                  import_from_vue (String ((Ascii (false, true, true, false,
                    true, true, true, false)), (String ((Ascii (true, false,
                    true, true, false, false, true, false)), (String ((Ascii
                    (true, true, true, true, false, true, true, false)),
                    (String ((Ascii (false, false, true, false, false, true,
                    true, false)), (String ((Ascii (true, false, true, false,
                    false, true, true, false)), (String ((Ascii (false,
                    false, true, true, false, true, true, false)), (String
                    ((Ascii (false, false, true, false, true, false, true,
                    false)), (String ((Ascii (true, false, true, false,
                    false, true, true, false)), (String ((Ascii (false,
                    false, false, true, true, true, true, false)), (String
                    ((Ascii (false, false, true, false, true, true, true,
                    false)), EmptyString)))))))))))))))))))) s)
             | Spread _ ->
               let typ =
                 let rec find = function
                 | [] -> None
                 | n :: r ->
                   (match n with
                    | JAttr (name, v) ->
                      (match name with
                       | IdName k ->
                         if (&&)
                              (sq (String ((Ascii (false, false, true, false,
                                true, true, true, false)), (String ((Ascii
                                (true, false, false, true, true, true, true,
                                false)), (String ((Ascii (false, false,
                                false, false, true, true, true, false)),
                                (String ((Ascii (true, false, true, false,
                                false, true, true, false)),
                                EmptyString)))))))) k) (negb (is_nnull v))
                         then Some v
                         else find r
                       | _ -> find r)
                    | _ -> find r)
                 in find attrs
               in
               (match typ with
                | Some n ->
                  (match n with
                   | Str (v, _) ->
                     if sq (String ((Ascii (true, true, false, false, false,
                          true, true, false)), (String ((Ascii (false, false,
                          false, true, false, true, true, false)), (String
                          ((Ascii (true, false, true, false, false, true,
                          true, false)), (String ((Ascii (true, true, false,
                          false, false, true, true, false)), (String ((Ascii
                          (true, true, false, true, false, true, true,
                          false)), (String ((Ascii (false, true, false,
                          false, false, true, true, false)), (String ((Ascii
                          (true, true, true, true, false, true, true,
                          false)), (String ((Ascii (false, false, false,
                          true, true, true, true, false)),
                          EmptyString)))))))))))))))) v
                     then import_from_vue (String ((Ascii (false, true, true,
                            false, true, true, true, false)), (String ((Ascii
                            (true, false, true, true, false, false, true,
                            false)), (String ((Ascii (true, true, true, true,
                            false, true, true, false)), (String ((Ascii
                            (false, false, true, false, false, true, true,
                            false)), (String ((Ascii (true, false, true,
                            false, false, true, true, false)), (String
                            ((Ascii (false, false, true, true, false, true,
                            true, false)), (String ((Ascii (true, true,
                            false, false, false, false, true, false)),
                            (String ((Ascii (false, false, false, true,
                            false, true, true, false)), (String ((Ascii
                            (true, false, true, false, false, true, true,
                            false)), (String ((Ascii (true, true, false,
                            false, false, true, true, false)), (String
                            ((Ascii (true, true, false, true, false, true,
                            true, false)), (String ((Ascii (false, true,
                            false, false, false, true, true, false)), (String
                            ((Ascii (true, true, true, true, false, true,
                            true, false)), (String ((Ascii (false, false,
                            false, true, true, true, true, false)),
                            EmptyString)))))))))))))))))))))))))))) s
                     else if sq (String ((Ascii (false, true, false, false,
                               true, true, true, false)), (String ((Ascii
                               (true, false, false, false, false, true, true,
                               false)), (String ((Ascii (false, false, true,
                               false, false, true, true, false)), (String
                               ((Ascii (true, false, false, true, false,
                               true, true, false)), (String ((Ascii (true,
                               true, true, true, false, true, true, false)),
                               EmptyString)))))))))) v
                          then import_from_vue (String ((Ascii (false, true,
                                 true, false, true, true, true, false)),
                                 (String ((Ascii (true, false, true, true,
                                 false, false, true, false)), (String ((Ascii
                                 (true, true, true, true, false, true, true,
                                 false)), (String ((Ascii (false, false,
                                 true, false, false, true, true, false)),
                                 (String ((Ascii (true, false, true, false,
                                 false, true, true, false)), (String ((Ascii
                                 (false, false, true, true, false, true,
                                 true, false)), (String ((Ascii (false, true,
                                 false, false, true, false, true, false)),
                                 (String ((Ascii (true, false, false, false,
                                 false, true, true, false)), (String ((Ascii
                                 (false, false, true, false, false, true,
                                 true, false)), (String ((Ascii (true, false,
                                 false, true, false, true, true, false)),
                                 (String ((Ascii (true, true, true, true,
                                 false, true, true, false)),
                                 EmptyString)))))))))))))))))))))) s
                          else import_from_vue (String ((Ascii (false, true,
                                 true, false, true, true, true, false)),
                                 (String ((Ascii (true, false, true, true,
                                 false, false, true, false)), (String ((Ascii
                                 (true, true, true, true, false, true, true,
                                 false)), (String ((Ascii (false, false,
                                 true, false, false, true, true, false)),
                                 (String ((Ascii (true, false, true, false,
                                 false, true, true, false)), (String ((Ascii
                                 (false, false, true, true, false, true,
                                 true, false)), (String ((Ascii (false,
                                 false, true, false, true, false, true,
                                 false)), (String ((Ascii (true, false, true,
                                 false, false, true, true, false)), (String
                                 ((Ascii (false, false, false, true, true,
                                 true, true, false)), (String ((Ascii (false,
                                 false, true, false, true, true, true,
                                 false)), EmptyString)))))))))))))))))))) s
                   | _ ->
                     import_from_vue (String ((Ascii (false, true, true,
                       false, true, true, true, false)), (String ((Ascii
                       (true, false, true, true, false, false, true, false)),
                       (String ((Ascii (true, true, true, true, false, true,
                       true, false)), (String ((Ascii (false, false, true,
                       false, false, true, true, false)), (String ((Ascii
                       (true, false, true, false, false, true, true, false)),
                       (String ((Ascii (false, false, true, true, false,
                       true, true, false)), (String ((Ascii (false, false,
                       true, false, false, false, true, false)), (String
                       ((Ascii (true, false, false, true, true, true, true,
                       false)), (String ((Ascii (false, true, true, true,
                       false, true, true, false)), (String ((Ascii (true,
                       false, false, false, false, true, true, false)),
                       (String ((Ascii (true, false, true, true, false, true,
                       true, false)), (String ((Ascii (true, false, false,
                       true, false, true, true, false)), (String ((Ascii
                       (true, true, false, false, false, true, true, false)),
                       EmptyString)))))))))))))))))))))))))) s)
                | None ->
                  import_from_vue (String ((Ascii (false, true, true, false,
                    true, true, true, false)), (String ((Ascii (true, false,
                    true, true, false, false, true, false)), (String ((Ascii
                    (true, true, true, true, false, true, true, false)),
                    (String ((Ascii (false, false, true, false, false, true,
                    true, false)), (String ((Ascii (true, false, true, false,
                    false, true, true, false)), (String ((Ascii (false,
                    false, true, true, false, true, true, false)), (String
                    ((Ascii (false, false, true, false, true, false, true,
                    false)), (String ((Ascii (true, false, true, false,
                    false, true, true, false)), (String ((Ascii (false,
                    false, false, true, true, true, true, false)), (String
                    ((Ascii (false, false, true, false, true, true, true,
                    false)), EmptyString)))))))))))))))))))) s)
             | Call (_, _, _, _, _) ->
               let typ =
                 let rec find = function
                 | [] -> None
                 | n :: r ->
                   (match n with
                    | JAttr (name, v) ->
                      (match name with
                       | IdName k ->
                         if (&&)
                              (sq (String ((Ascii (false, false, true, false,
                                true, true, true, false)), (String ((Ascii
                                (true, false, false, true, true, true, true,
                                false)), (String ((Ascii (false, false,
                                false, false, true, true, true, false)),
                                (String ((Ascii (true, false, true, false,
                                false, true, true, false)),
                                EmptyString)))))))) k) (negb (is_nnull v))
                         then Some v
                         else find r
                       | _ -> find r)
                    | _ -> find r)
                 in find attrs
               in
               (match typ with
                | Some n ->
                  (match n with
                   | Str (v, _) ->
                     if sq (String ((Ascii (true, true, false, false, false,
                          true, true, false)), (String ((Ascii (false, false,
                          false, true, false, true, true, false)), (String
                          ((Ascii (true, false, true, false, false, true,
                          true, false)), (String ((Ascii (true, true, false,
                          false, false, true, true, false)), (String ((Ascii
                          (true, true, false, true, false, true, true,
                          false)), (String ((Ascii (false, true, false,
                          false, false, true, true, false)), (String ((Ascii
                          (true, true, true, true, false, true, true,
                          false)), (String ((Ascii (false, false, false,
                          true, true, true, true, false)),
                          EmptyString)))))))))))))))) v
                     then import_from_vue (String ((Ascii (false, true, true,
                            false, true, true, true, false)), (String ((Ascii
                            (true, false, true, true, false, false, true,
                            false)), (String ((Ascii (true, true, true, true,
                            false, true, true, false)), (String ((Ascii
                            (false, false, true, false, false, true, true,
                            false)), (String ((Ascii (true, false, true,
                            false, false, true, true, false)), (String
                            ((Ascii (false, false, true, true, false, true,
                            true, false)), (String ((Ascii (true, true,
                            false, false, false, false, true, false)),
                            (String ((Ascii (false, false, false, true,
                            false, true, true, false)), (String ((Ascii
                            (true, false, true, false, false, true, true,
                            false)), (String ((Ascii (true, true, false,
                            false, false, true, true, false)), (String
                            ((Ascii (true, true, false, true, false, true,
                            true, false)), (String ((Ascii (false, true,
                            false, false, false, true, true, false)), (String
                            ((Ascii (true, true, true, true, false, true,
                            true, false)), (String ((Ascii (false, false,
                            false, true, true, true, true, false)),
                            EmptyString)))))))))))))))))))))))))))) s
                     else if sq (String ((Ascii (false, true, false, false,
                               true, true, true, false)), (String ((Ascii
                               (true, false, false, false, false, true, true,
                               false)), (String ((Ascii (false, false, true,
                               false, false, true, true, false)), (String
                               ((Ascii (true, false, false, true, false,
                               true, true, false)), (String ((Ascii (true,
                               true, true, true, false, true, true, false)),
                               EmptyString)))))))))) v
                          then import_from_vue (String ((Ascii (false, true,
                                 true, false, true, true, true, false)),
                                 (String ((Ascii (true, false, true, true,
                                 false, false, true, false)), (String ((Ascii
                                 (true, true, true, true, false, true, true,
                                 false)), (String ((Ascii (false, false,
                                 true, false, false, true, true, false)),
                                 (String ((Ascii (true, false, true, false,
                                 false, true, true, false)), (String ((Ascii
                                 (false, false, true, true, false, true,
                                 true, false)), (String ((Ascii (false, true,
                                 false, false, true, false, true, false)),
                                 (String ((Ascii (true, false, false, false,
                                 false, true, true, false)), (String ((Ascii
                                 (false, false, true, false, false, true,
                                 true, false)), (String ((Ascii (true, false,
                                 false, true, false, true, true, false)),
                                 (String ((Ascii (true, true, true, true,
                                 false, true, true, false)),
                                 EmptyString)))))))))))))))))))))) s
                          else import_from_vue (String ((Ascii (false, true,
                                 true, false, true, true, true, false)),
                                 (String ((Ascii (true, false, true, true,
                                 false, false, true, false)), (String ((Ascii
                                 (true, true, true, true, false, true, true,
                                 false)), (String ((Ascii (false, false,
                                 true, false, false, true, true, false)),
                                 (String ((Ascii (true, false, true, false,
                                 false, true, true, false)), (String ((Ascii
                                 (false, false, true, true, false, true,
                                 true, false)), (String ((Ascii (false,
                                 false, true, false, true, false, true,
                                 false)), (String ((Ascii (true, false, true,
                                 false, false, true, true, false)), (String
                                 ((Ascii (false, false, false, true, true,
                                 true, true, false)), (String ((Ascii (false,
                                 false, true, false, true, true, true,
                                 false)), EmptyString)))))))))))))))))))) s
                   | _ ->
                     import_from_vue (String ((Ascii (false, true, true,
                       false, true, true, true, false)), (String ((Ascii
                       (true, false, true, true, false, false, true, false)),
                       (String ((Ascii (true, true, true, true, false, true,
                       true, false)), (String ((Ascii (false, false, true,
                       false, false, true, true, false)), (String ((Ascii
                       (true, false, true, false, false, true, true, false)),
                       (String ((Ascii (false, false, true, true, false,
                       true, true, false)), (String ((Ascii (false, false,
                       true, false, false, false, true, false)), (String
                       ((Ascii (true, false, false, true, true, true, true,
                       false)), (String ((Ascii (false, true, true, true,
                       false, true, true, false)), (String ((Ascii (true,
                       false, false, false, false, true, true, false)),
                       (String ((Ascii (true, false, true, true, false, true,
                       true, false)), (String ((Ascii (true, false, false,
                       true, false, true, true, false)), (String ((Ascii
                       (true, true, false, false, false, true, true, false)),
                       EmptyString)))))))))))))))))))))))))) s)
                | None ->
                  import_from_vue (String ((Ascii (false, true, true, false,
                    true, true, true, false)), (String ((Ascii (true, false,
                    true, true, false, false, true, false)), (String ((Ascii
                    (true, true, true, true, false, true, true, false)),
                    (String ((Ascii (false, false, true, false, false, true,
                    true, false)), (String ((Ascii (true, false, true, false,
                    false, true, true, false)), (String ((Ascii (false,
                    false, true, true, false, true, true, false)), (String
                    ((Ascii (false, false, true, false, true, false, true,
                    false)), (String ((Ascii (true, false, true, false,
                    false, true, true, false)), (String ((Ascii (false,
                    false, false, true, true, true, true, false)), (String
                    ((Ascii (false, false, true, false, true, true, true,
                    false)), EmptyString)))))))))))))))))))) s)
             | Arrow (_, _, _, _, _, _, _) ->
               let typ =
                 let rec find = function
                 | [] -> None
                 | n :: r ->
                   (match n with
                    | JAttr (name, v) ->
                      (match name with
                       | IdName k ->
                         if (&&)
                              (sq (String ((Ascii (false, false, true, false,
                                true, true, true, false)), (String ((Ascii
                                (true, false, false, true, true, true, true,
                                false)), (String ((Ascii (false, false,
                                false, false, true, true, true, false)),
                                (String ((Ascii (true, false, true, false,
                                false, true, true, false)),
                                EmptyString)))))))) k) (negb (is_nnull v))
                         then Some v
                         else find r
                       | _ -> find r)
                    | _ -> find r)
                 in find attrs
               in
               (match typ with
                | Some n ->
                  (match n with
                   | Str (v, _) ->
                     if sq (String ((Ascii (true, true, false, false, false,
                          true, true, false)), (String ((Ascii (false, false,
                          false, true, false, true, true, false)), (String
                          ((Ascii (true, false, true, false, false, true,
                          true, false)), (String ((Ascii (true, true, false,
                          false, false, true, true, false)), (String ((Ascii
                          (true, true, false, true, false, true, true,
                          false)), (String ((Ascii (false, true, false,
                          false, false, true, true, false)), (String ((Ascii
                          (true, true, true, true, false, true, true,
                          false)), (String ((Ascii (false, false, false,
                          true, true, true, true, false)),
                          EmptyString)))))))))))))))) v
                     then import_from_vue (String ((Ascii (false, true, true,
                            false, true, true, true, false)), (String ((Ascii
                            (true, false, true, true, false, false, true,
                            false)), (String ((Ascii (true, true, true, true,
                            false, true, true, false)), (String ((Ascii
                            (false, false, true, false, false, true, true,
                            false)), (String ((Ascii (true, false, true,
                            false, false, true, true, false)), (String
                            ((Ascii (false, false, true, true, false, true,
                            true, false)), (String ((Ascii (true, true,
                            false, false, false, false, true, false)),
                            (String ((Ascii (false, false, false, true,
                            false, true, true, false)), (String ((Ascii
                            (true, false, true, false, false, true, true,
                            false)), (String ((Ascii (true, true, false,
                            false, false, true, true, false)), (String
                            ((Ascii (true, true, false, true, false, true,
                            true, false)), (String ((Ascii (false, true,
                            false, false, false, true, true, false)), (String
                            ((Ascii (true, true, true, true, false, true,
                            true, false)), (String ((Ascii (false, false,
                            false, true, true, true, true, false)),
                            EmptyString)))))))))))))))))))))))))))) s
                     else if sq (String ((Ascii (false, true, false, false,
                               true, true, true, false)), (String ((Ascii
                               (true, false, false, false, false, true, true,
                               false)), (String ((Ascii (false, false, true,
                               false, false, true, true, false)), (String
                               ((Ascii (true, false, false, true, false,
                               true, true, false)), (String ((Ascii (true,
                               true, true, true, false, true, true, false)),
                               EmptyString)))))))))) v
                          then import_from_vue (String ((Ascii (false, true,
                                 true, false, true, true, true, false)),
                                 (String ((Ascii (true, false, true, true,
                                 false, false, true, false)), (String ((Ascii
                                 (true, true, true, true, false, true, true,
                                 false)), (String ((Ascii (false, false,
                                 true, false, false, true, true, false)),
                                 (String ((Ascii (true, false, true, false,
                                 false, true, true, false)), (String ((Ascii
                                 (false, false, true, true, false, true,
                                 true, false)), (String ((Ascii (false, true,
                                 false, false, true, false, true, false)),
                                 (String ((Ascii (true, false, false, false,
                                 false, true, true, false)), (String ((Ascii
                                 (false, false, true, false, false, true,
                                 true, false)), (String ((Ascii (true, false,
                                 false, true, false, true, true, false)),
                                 (String ((Ascii (true, true, true, true,
                                 false, true, true, false)),
                                 EmptyString)))))))))))))))))))))) s
                          else import_from_vue (String ((Ascii (false, true,
                                 true, false, true, true, true, false)),
                                 (String ((Ascii (true, false, true, true,
                                 false, false, true, false)), (String ((Ascii
                                 (true, true, true, true, false, true, true,
                                 false)), (String ((Ascii (false, false,
                                 true, false, false, true, true, false)),
                                 (String ((Ascii (true, false, true, false,
                                 false, true, true, false)), (String ((Ascii
                                 (false, false, true, true, false, true,
                                 true, false)), (String ((Ascii (false,
                                 false, true, false, true, false, true,
                                 false)), (String ((Ascii (true, false, true,
                                 false, false, true, true, false)), (String
                                 ((Ascii (false, false, false, true, true,
                                 true, true, false)), (String ((Ascii (false,
                                 false, true, false, true, true, true,
                                 false)), EmptyString)))))))))))))))))))) s
                   | _ ->
                     import_from_vue (String ((Ascii (false, true, true,
                       false, true, true, true, false)), (String ((Ascii
                       (true, false, true, true, false, false, true, false)),
                       (String ((Ascii (true, true, true, true, false, true,
                       true, false)), (String ((Ascii (false, false, true,
                       false, false, true, true, false)), (String ((Ascii
                       (true, false, true, false, false, true, true, false)),
                       (String ((Ascii (false, false, true, true, false,
                       true, true, false)), (String ((Ascii (false, false,
                       true, false, false, false, true, false)), (String
                       ((Ascii (true, false, false, true, true, true, true,
                       false)), (String ((Ascii (false, true, true, true,
                       false, true, true, false)), (String ((Ascii (true,
                       false, false, false, false, true, true, false)),
                       (String ((Ascii (true, false, true, true, false, true,
                       true, false)), (String ((Ascii (true, false, false,
                       true, false, true, true, false)), (String ((Ascii
                       (true, true, false, false, false, true, true, false)),
                       EmptyString)))))))))))))))))))))))))) s)
                | None ->
                  import_from_vue (String ((Ascii (false, true, true, false,
                    true, true, true, false)), (String ((Ascii (true, false,
                    true, true, false, false, true, false)), (String ((Ascii
                    (true, true, true, true, false, true, true, false)),
                    (String ((Ascii (false, false, true, false, false, true,
                    true, false)), (String ((Ascii (true, false, true, false,
                    false, true, true, false)), (String ((Ascii (false,
                    false, true, true, false, true, true, false)), (String
                    ((Ascii (false, false, true, false, true, false, true,
                    false)), (String ((Ascii (true, false, true, false,
                    false, true, true, false)), (String ((Ascii (false,
                    false, false, true, true, true, true, false)), (String
                    ((Ascii (false, false, true, false, true, true, true,
                    false)), EmptyString)))))))))))))))))))) s)
             | Assign (_, _, _) ->
               let typ =
                 let rec find = function
                 | [] -> None
                 | n :: r ->
                   (match n with
                    | JAttr (name, v) ->
                      (match name with
                       | IdName k ->
                         if (&&)
                              (sq (String ((Ascii (false, false, true, false,
                                true, true, true, false)), (String ((Ascii
                                (true, false, false, true, true, true, true,
                                false)), (String ((Ascii (false, false,
                                false, false, true, true, true, false)),
                                (String ((Ascii (true, false, true, false,
                                false, true, true, false)),
                                EmptyString)))))))) k) (negb (is_nnull v))
                         then Some v
                         else find r
                       | _ -> find r)
                    | _ -> find r)
                 in find attrs
               in
               (match typ with
                | Some n ->
                  (match n with
                   | Str (v, _) ->
                     if sq (String ((Ascii (true, true, false, false, false,
                          true, true, false)), (String ((Ascii (false, false,
                          false, true, false, true, true, false)), (String
                          ((Ascii (true, false, true, false, false, true,
                          true, false)), (String ((Ascii (true, true, false,
                          false, false, true, true, false)), (String ((Ascii
                          (true, true, false, true, false, true, true,
                          false)), (String ((Ascii (false, true, false,
                          false, false, true, true, false)), (String ((Ascii
                          (true, true, true, true, false, true, true,
                          false)), (String ((Ascii (false, false, false,
                          true, true, true, true, false)),
                          EmptyString)))))))))))))))) v
                     then import_from_vue (String ((Ascii (false, true, true,
                            false, true, true, true, false)), (String ((Ascii
                            (true, false, true, true, false, false, true,
                            false)), (String ((Ascii (true, true, true, true,
                            false, true, true, false)), (String ((Ascii
                            (false, false, true, false, false, true, true,
                            false)), (String ((Ascii (true, false, true,
                            false, false, true, true, false)), (String
                            ((Ascii (false, false, true, true, false, true,
                            true, false)), (String ((Ascii (true, true,
                            false, false, false, false, true, false)),
                            (String ((Ascii (false, false, false, true,
                            false, true, true, false)), (String ((Ascii
                            (true, false, true, false, false, true, true,
                            false)), (String ((Ascii (true, true, false,
                            false, false, true, true, false)), (String
                            ((Ascii (true, true, false, true, false, true,
                            true, false)), (String ((Ascii (false, true,
                            false, false, false, true, true, false)), (String
                            ((Ascii (true, true, true, true, false, true,
                            true, false)), (String ((Ascii (false, false,
                            false, true, true, true, true, false)),
                            EmptyString)))))))))))))))))))))))))))) s
                     else if sq (String ((Ascii (false, true, false, false,
                               true, true, true, false)), (String ((Ascii
                               (true, false, false, false, false, true, true,
                               false)), (String ((Ascii (false, false, true,
                               false, false, true, true, false)), (String
                               ((Ascii (true, false, false, true, false,
                               true, true, false)), (String ((Ascii (true,
                               true, true, true, false, true, true, false)),
                               EmptyString)))))))))) v
                          then import_from_vue (String ((Ascii (false, true,
                                 true, false, true, true, true, false)),
                                 (String ((Ascii (true, false, true, true,
                                 false, false, true, false)), (String ((Ascii
                                 (true, true, true, true, false, true, true,
                                 false)), (String ((Ascii (false, false,
                                 true, false, false, true, true, false)),
                                 (String ((Ascii (true, false, true, false,
                                 false, true, true, false)), (String ((Ascii
                                 (false, false, true, true, false, true,
                                 true, false)), (String ((Ascii (false, true,
                                 false, false, true, false, true, false)),
                                 (String ((Ascii (true, false, false, false,
                                 false, true, true, false)), (String ((Ascii
                                 (false, false, true, false, false, true,
                                 true, false)), (String ((Ascii (true, false,
                                 false, true, false, true, true, false)),
                                 (String ((Ascii (true, true, true, true,
                                 false, true, true, false)),
                                 EmptyString)))))))))))))))))))))) s
                          else import_from_vue (String ((Ascii (false, true,
                                 true, false, true, true, true, false)),
                                 (String ((Ascii (true, false, true, true,
                                 false, false, true, false)), (String ((Ascii
                                 (true, true, true, true, false, true, true,
                                 false)), (String ((Ascii (false, false,
                                 true, false, false, true, true, false)),
                                 (String ((Ascii (true, false, true, false,
                                 false, true, true, false)), (String ((Ascii
                                 (false, false, true, true, false, true,
                                 true, false)), (String ((Ascii (false,
                                 false, true, false, true, false, true,
                                 false)), (String ((Ascii (true, false, true,
                                 false, false, true, true, false)), (String
                                 ((Ascii (false, false, false, true, true,
                                 true, true, false)), (String ((Ascii (false,
                                 false, true, false, true, true, true,
                                 false)), EmptyString)))))))))))))))))))) s
                   | _ ->
                     import_from_vue (String ((Ascii (false, true, true,
                       false, true, true, true, false)), (String ((Ascii
                       (true, false, true, true, false, false, true, false)),
                       (String ((Ascii (true, true, true, true, false, true,
                       true, false)), (String ((Ascii (false, false, true,
                       false, false, true, true, false)), (String ((Ascii
                       (true, false, true, false, false, true, true, false)),
                       (String ((Ascii (false, false, true, true, false,
                       true, true, false)), (String ((Ascii (false, false,
                       true, false, false, false, true, false)), (String
                       ((Ascii (true, false, false, true, true, true, true,
                       false)), (String ((Ascii (false, true, true, true,
                       false, true, true, false)), (String ((Ascii (true,
                       false, false, false, false, true, true, false)),
                       (String ((Ascii (true, false, true, true, false, true,
                       true, false)), (String ((Ascii (true, false, false,
                       true, false, true, true, false)), (String ((Ascii
                       (true, true, false, false, false, true, true, false)),
                       EmptyString)))))))))))))))))))))))))) s)
                | None ->
                  import_from_vue (String ((Ascii (false, true, true, false,
                    true, true, true, false)), (String ((Ascii (true, false,
                    true, true, false, false, true, false)), (String ((Ascii
                    (true, true, true, true, false, true, true, false)),
                    (String ((Ascii (false, false, true, false, false, true,
                    true, false)), (String ((Ascii (true, false, true, false,
                    false, true, true, false)), (String ((Ascii (false,
                    false, true, true, false, true, true, false)), (String
                    ((Ascii (false, false, true, false, true, false, true,
                    false)), (String ((Ascii (true, false, true, false,
                    false, true, true, false)), (String ((Ascii (false,
                    false, false, true, true, true, true, false)), (String
                    ((Ascii (false, false, true, false, true, true, true,
                    false)), EmptyString)))))))))))))))))))) s)
             | Paren _ ->
               let typ =
                 let rec find = function
                 | [] -> None
                 | n :: r ->
                   (match n with
                    | JAttr (name, v) ->
                      (match name with
                       | IdName k ->
                         if (&&)
                              (sq (String ((Ascii (false, false, true, false,
                                true, true, true, false)), (String ((Ascii
                                (true, false, false, true, true, true, true,
                                false)), (String ((Ascii (false, false,
                                false, false, true, true, true, false)),
                                (String ((Ascii (true, false, true, false,
                                false, true, true, false)),
                                EmptyString)))))))) k) (negb (is_nnull v))
                         then Some v
                         else find r
                       | _ -> find r)
                    | _ -> find r)
                 in find attrs
               in
               (match typ with
                | Some n ->
                  (match n with
                   | Str (v, _) ->
                     if sq (String ((Ascii (true, true, false, false, false,
                          true, true, false)), (String ((Ascii (false, false,
                          false, true, false, true, true, false)), (String
                          ((Ascii (true, false, true, false, false, true,
                          true, false)), (String ((Ascii (true, true, false,
                          false, false, true, true, false)), (String ((Ascii
                          (true, true, false, true, false, true, true,
                          false)), (String ((Ascii (false, true, false,
                          false, false, true, true, false)), (String ((Ascii
                          (true, true, true, true, false, true, true,
                          false)), (String ((Ascii (false, false, false,
                          true, true, true, true, false)),
                          EmptyString)))))))))))))))) v
                     then import_from_vue (String ((Ascii (false, true, true,
                            false, true, true, true, false)), (String ((Ascii
                            (true, false, true, true, false, false, true,
                            false)), (String ((Ascii (true, true, true, true,
                            false, true, true, false)), (String ((Ascii
                            (false, false, true, false, false, true, true,
                            false)), (String ((Ascii (true, false, true,
                            false, false, true, true, false)), (String
                            ((Ascii (false, false, true, true, false, true,
                            true, false)), (String ((Ascii (true, true,
                            false, false, false, false, true, false)),
                            (String ((Ascii (false, false, false, true,
                            false, true, true, false)), (String ((Ascii
                            (true, false, true, false, false, true, true,
                            false)), (String ((Ascii (true, true, false,
                            false, false, true, true, false)), (String
                            ((Ascii (true, true, false, true, false, true,
                            true, false)), (String ((Ascii (false, true,
                            false, false, false, true, true, false)), (String
                            ((Ascii (true, true, true, true, false, true,
                            true, false)), (String ((Ascii (false, false,
                            false, true, true, true, true, false)),
                            EmptyString)))))))))))))))))))))))))))) s
                     else if sq (String ((Ascii (false, true, false, false,
                               true, true, true, false)), (String ((Ascii
                               (true, false, false, false, false, true, true,
                               false)), (String ((Ascii (false, false, true,
                               false, false, true, true, false)), (String
                               ((Ascii (true, false, false, true, false,
                               true, true, false)), (String ((Ascii (true,
                               true, true, true, false, true, true, false)),
                               EmptyString)))))))))) v
                          then import_from_vue (String ((Ascii (false, true,
                                 true, false, true, true, true, false)),
                                 (String ((Ascii (true, false, true, true,
                                 false, false, true, false)), (String ((Ascii
                                 (true, true, true, true, false, true, true,
                                 false)), (String ((Ascii (false, false,
                                 true, false, false, true, true, false)),
                                 (String ((Ascii (true, false, true, false,
                                 false, true, true, false)), (String ((Ascii
                                 (false, false, true, true, false, true,
                                 true, false)), (String ((Ascii (false, true,
                                 false, false, true, false, true, false)),
                                 (String ((Ascii (true, false, false, false,
                                 false, true, true, false)), (String ((Ascii
                                 (false, false, true, false, false, true,
                                 true, false)), (String ((Ascii (true, false,
                                 false, true, false, true, true, false)),
                                 (String ((Ascii (true, true, true, true,
                                 false, true, true, false)),
                                 EmptyString)))))))))))))))))))))) s
                          else import_from_vue (String ((Ascii (false, true,
                                 true, false, true, true, true, false)),
                                 (String ((Ascii (true, false, true, true,
                                 false, false, true, false)), (String ((Ascii
                                 (true, true, true, true, false, true, true,
                                 false)), (String ((Ascii (false, false,
                                 true, false, false, true, true, false)),
                                 (String ((Ascii (true, false, true, false,
                                 false, true, true, false)), (String ((Ascii
                                 (false, false, true, true, false, true,
                                 true, false)), (String ((Ascii (false,
                                 false, true, false, true, false, true,
                                 false)), (String ((Ascii (true, false, true,
                                 false, false, true, true, false)), (String
                                 ((Ascii (false, false, false, true, true,
                                 true, true, false)), (String ((Ascii (false,
                                 false, true, false, true, true, true,
                                 false)), EmptyString)))))))))))))))))))) s
                   | _ ->
                     import_from_vue (String ((Ascii (false, true, true,
                       false, true, true, true, false)), (String ((Ascii
                       (true, false, true, true, false, false, true, false)),
                       (String ((Ascii (true, true, true, true, false, true,
                       true, false)), (String ((Ascii (false, false, true,
                       false, false, true, true, false)), (String ((Ascii
                       (true, false, true, false, false, true, true, false)),
                       (String ((Ascii (false, false, true, true, false,
                       true, true, false)), (String ((Ascii (false, false,
                       true, false, false, false, true, false)), (String
                       ((Ascii (true, false, false, true, true, true, true,
                       false)), (String ((Ascii (false, true, true, true,
                       false, true, true, false)), (String ((Ascii (true,
                       false, false, false, false, true, true, false)),
                       (String ((Ascii (true, false, true, true, false, true,
                       true, false)), (String ((Ascii (true, false, false,
                       true, false, true, true, false)), (String ((Ascii
                       (true, true, false, false, false, true, true, false)),
                       EmptyString)))))))))))))))))))))))))) s)
                | None ->
                  import_from_vue (String ((Ascii (false, true, true, false,
                    true, true, true, false)), (String ((Ascii (true, false,
                    true, true, false, false, true, false)), (String ((Ascii
                    (true, true, true, true, false, true, true, false)),
                    (String ((Ascii (false, false, true, false, false, true,
                    true, false)), (String ((Ascii (true, false, true, false,
                    false, true, true, false)), (String ((Ascii (false,
                    false, true, true, false, true, true, false)), (String
                    ((Ascii (false, false, true, false, true, false, true,
                    false)), (String ((Ascii (true, false, true, false,
                    false, true, true, false)), (String ((Ascii (false,
                    false, false, true, true, true, true, false)), (String
                    ((Ascii (false, false, true, false, true, true, true,
                    false)), EmptyString)))))))))))))))))))) s)
             | Cond (_, _, _) ->
               let typ =
                 let rec find = function
                 | [] -> None
                 | n :: r ->
                   (match n with
                    | JAttr (name, v) ->
                      (match name with
                       | IdName k ->
                         if (&&)
                              (sq (String ((Ascii (false, false, true, false,
                                true, true, true, false)), (String ((Ascii
                                (true, false, false, true, true, true, true,
                                false)), (String ((Ascii (false, false,
                                false, false, true, true, true, false)),
                                (String ((Ascii (true, false, true, false,
                                false, true, true, false)),
                                EmptyString)))))))) k) (negb (is_nnull v))
                         then Some v
                         else find r
                       | _ -> find r)
                    | _ -> find r)
                 in find attrs
               in
               (match typ with
                | Some n ->
                  (match n with
                   | Str (v, _) ->
                     if sq (String ((Ascii (true, true, false, false, false,
                          true, true, false)), (String ((Ascii (false, false,
                          false, true, false, true, true, false)), (String
                          ((Ascii (true, false, true, false, false, true,
                          true, false)), (String ((Ascii (true, true, false,
                          false, false, true, true, false)), (String ((Ascii
                          (true, true, false, true, false, true, true,
                          false)), (String ((Ascii (false, true, false,
                          false, false, true, true, false)), (String ((Ascii
                          (true, true, true, true, false, true, true,
                          false)), (String ((Ascii (false, false, false,
                          true, true, true, true, false)),
                          EmptyString)))))))))))))))) v
                     then import_from_vue (String ((Ascii (false, true, true,
                            false, true, true, true, false)), (String ((Ascii
                            (true, false, true, true, false, false, true,
                            false)), (String ((Ascii (true, true, true, true,
                            false, true, true, false)), (String ((Ascii
                            (false, false, true, false, false, true, true,
                            false)), (String ((Ascii (true, false, true,
                            false, false, true, true, false)), (String
                            ((Ascii (false, false, true, true, false, true,
                            true, false)), (String ((Ascii (true, true,
                            false, false, false, false, true, false)),
                            (String ((Ascii (false, false, false, true,
                            false, true, true, false)), (String ((Ascii
                            (true, false, true, false, false, true, true,
                            false)), (String ((Ascii (true, true, false,
                            false, false, true, true, false)), (String
                            ((Ascii (true, true, false, true, false, true,
                            true, false)), (String ((Ascii (false, true,
                            false, false, false, true, true, false)), (String
                            ((Ascii (true, true, true, true, false, true,
                            true, false)), (String ((Ascii (false, false,
                            false, true, true, true, true, false)),
                            EmptyString)))))))))))))))))))))))))))) s
                     else if sq (String ((Ascii (false, true, false, false,
                               true, true, true, false)), (String ((Ascii
                               (true, false, false, false, false, true, true,
                               false)), (String ((Ascii (false, false, true,
                               false, false, true, true, false)), (String
                               ((Ascii (true, false, false, true, false,
                               true, true, false)), (String ((Ascii (true,
                               true, true, true, false, true, true, false)),
                               EmptyString)))))))))) v
                          then import_from_vue (String ((Ascii (false, true,
                                 true, false, true, true, true, false)),
                                 (String ((Ascii (true, false, true, true,
                                 false, false, true, false)), (String ((Ascii
                                 (true, true, true, true, false, true, true,
                                 false)), (String ((Ascii (false, false,
                                 true, false, false, true, true, false)),
                                 (String ((Ascii (true, false, true, false,
                                 false, true, true, false)), (String ((Ascii
                                 (false, false, true, true, false, true,
                                 true, false)), (String ((Ascii (false, true,
                                 false, false, true, false, true, false)),
                                 (String ((Ascii (true, false, false, false,
                                 false, true, true, false)), (String ((Ascii
                                 (false, false, true, false, false, true,
                                 true, false)), (String ((Ascii (true, false,
                                 false, true, false, true, true, false)),
                                 (String ((Ascii (true, true, true, true,
                                 false, true, true, false)),
                                 EmptyString)))))))))))))))))))))) s
                          else import_from_vue (String ((Ascii (false, true,
                                 true, false, true, true, true, false)),
                                 (String ((Ascii (true, false, true, true,
                                 false, false, true, false)), (String ((Ascii
                                 (true, true, true, true, false, true, true,
                                 false)), (String ((Ascii (false, false,
                                 true, false, false, true, true, false)),
                                 (String ((Ascii (true, false, true, false,
                                 false, true, true, false)), (String ((Ascii
                                 (false, false, true, true, false, true,
                                 true, false)), (String ((Ascii (false,
                                 false, true, false, true, false, true,
                                 false)), (String ((Ascii (true, false, true,
                                 false, false, true, true, false)), (String
                                 ((Ascii (false, false, false, true, true,
                                 true, true, false)), (String ((Ascii (false,
                                 false, true, false, true, true, true,
                                 false)), EmptyString)))))))))))))))))))) s
                   | _ ->
                     import_from_vue (String ((Ascii (false, true, true,
                       false, true, true, true, false)), (String ((Ascii
                       (true, false, true, true, false, false, true, false)),
                       (String ((Ascii (true, true, true, true, false, true,
                       true, false)), (String ((Ascii (false, false, true,
                       false, false, true, true, false)), (String ((Ascii
                       (true, false, true, false, false, true, true, false)),
                       (String ((Ascii (false, false, true, true, false,
                       true, true, false)), (String ((Ascii (false, false,
                       true, false, false, false, true, false)), (String
                       ((Ascii (true, false, false, true, true, true, true,
                       false)), (String ((Ascii (false, true, true, true,
                       false, true, true, false)), (String ((Ascii (true,
                       false, false, false, false, true, true, false)),
                       (String ((Ascii (true, false, true, true, false, true,
                       true, false)), (String ((Ascii (true, false, false,
                       true, false, true, true, false)), (String ((Ascii
                       (true, true, false, false, false, true, true, false)),
                       EmptyString)))))))))))))))))))))))))) s)
                | None ->
                  import_from_vue (String ((Ascii (false, true, true, false,
                    true, true, true, false)), (String ((Ascii (true, false,
                    true, true, false, false, true, false)), (String ((Ascii
                    (true, true, true, true, false, true, true, false)),
                    (String ((Ascii (false, false, true, false, false, true,
                    true, false)), (String ((Ascii (true, false, true, false,
                    false, true, true, false)), (String ((Ascii (false,
                    false, true, true, false, true, true, false)), (String
                    ((Ascii (false, false, true, false, true, false, true,
                    false)), (String ((Ascii (true, false, true, false,
                    false, true, true, false)), (String ((Ascii (false,
                    false, false, true, true, true, true, false)), (String
                    ((Ascii (false, false, true, false, true, true, true,
                    false)), EmptyString)))))))))))))))))))) s)
             | Bin (_, _, _) ->
               let typ =
                 let rec find = function
                 | [] -> None
                 | n :: r ->
                   (match n with
                    | JAttr (name, v) ->
                      (match name with
                       | IdName k ->
                         if (&&)
                              (sq (String ((Ascii (false, false, true, false,
                                true, true, true, false)), (String ((Ascii
                                (true, false, false, true, true, true, true,
                                false)), (String ((Ascii (false, false,
                                false, false, true, true, true, false)),
                                (String ((Ascii (true, false, true, false,
                                false, true, true, false)),
                                EmptyString)))))))) k) (negb (is_nnull v))
                         then Some v
                         else find r
                       | _ -> find r)
                    | _ -> find r)
                 in find attrs
               in
               (match typ with
                | Some n ->
                  (match n with
                   | Str (v, _) ->
                     if sq (String ((Ascii (true, true, false, false, false,
                          true, true, false)), (String ((Ascii (false, false,
                          false, true, false, true, true, false)), (String
                          ((Ascii (true, false, true, false, false, true,
                          true, false)), (String ((Ascii (true, true, false,
                          false, false, true, true, false)), (String ((Ascii
                          (true, true, false, true, false, true, true,
                          false)), (String ((Ascii (false, true, false,
                          false, false, true, true, false)), (String ((Ascii
                          (true, true, true, true, false, true, true,
                          false)), (String ((Ascii (false, false, false,
                          true, true, true, true, false)),
                          EmptyString)))))))))))))))) v
                     then import_from_vue (String ((Ascii (false, true, true,
                            false, true, true, true, false)), (String ((Ascii
                            (true, false, true, true, false, false, true,
                            false)), (String ((Ascii (true, true, true, true,
                            false, true, true, false)), (String ((Ascii
                            (false, false, true, false, false, true, true,
                            false)), (String ((Ascii (true, false, true,
                            false, false, true, true, false)), (String
                            ((Ascii (false, false, true, true, false, true,
                            true, false)), (String ((Ascii (true, true,
                            false, false, false, false, true, false)),
                            (String ((Ascii (false, false, false, true,
                            false, true, true, false)), (String ((Ascii
                            (true, false, true, false, false, true, true,
                            false)), (String ((Ascii (true, true, false,
                            false, false, true, true, false)), (String
                            ((Ascii (true, true, false, true, false, true,
                            true, false)), (String ((Ascii (false, true,
                            false, false, false, true, true, false)), (String
                            ((Ascii (true, true, true, true, false, true,
                            true, false)), (String ((Ascii (false, false,
                            false, true, true, true, true, false)),
                            EmptyString)))))))))))))))))))))))))))) s
                     else if sq (String ((Ascii (false, true, false, false,
                               true, true, true, false)), (String ((Ascii
                               (true, false, false, false, false, true, true,
                               false)), (String ((Ascii (false, false, true,
                               false, false, true, true, false)), (String
                               ((Ascii (true, false, false, true, false,
                               true, true, false)), (String ((Ascii (true,
                               true, true, true, false, true, true, false)),
                               EmptyString)))))))))) v
                          then import_from_vue (String ((Ascii (false, true,
                                 true, false, true, true, true, false)),
                                 (String ((Ascii (true, false, true, true,
                                 false, false, true, false)), (String ((Ascii
                                 (true, true, true, true, false, true, true,
                                 false)), (String ((Ascii (false, false,
                                 true, false, false, true, true, false)),
                                 (String ((Ascii (true, false, true, false,
                                 false, true, true, false)), (String ((Ascii
                                 (false, false, true, true, false, true,
                                 true, false)), (String ((Ascii (false, true,
                                 false, false, true, false, true, false)),
                                 (String ((Ascii (true, false, false, false,
                                 false, true, true, false)), (String ((Ascii
                                 (false, false, true, false, false, true,
                                 true, false)), (String ((Ascii (true, false,
                                 false, true, false, true, true, false)),
                                 (String ((Ascii (true, true, true, true,
                                 false, true, true, false)),
                                 EmptyString)))))))))))))))))))))) s
                          else import_from_vue (String ((Ascii (false, true,
                                 true, false, true, true, true, false)),
                                 (String ((Ascii (true, false, true, true,
                                 false, false, true, false)), (String ((Ascii
                                 (true, true, true, true, false, true, true,
                                 false)), (String ((Ascii (false, false,
                                 true, false, false, true, true, false)),
                                 (String ((Ascii (true, false, true, false,
                                 false, true, true, false)), (String ((Ascii
                                 (false, false, true, true, false, true,
                                 true, false)), (String ((Ascii (false,
                                 false, true, false, true, false, true,
                                 false)), (String ((Ascii (true, false, true,
                                 false, false, true, true, false)), (String
                                 ((Ascii (false, false, false, true, true,
                                 true, true, false)), (String ((Ascii (false,
                                 false, true, false, true, true, true,
                                 false)), EmptyString)))))))))))))))))))) s
                   | _ ->
                     import_from_vue (String ((Ascii (false, true, true,
                       false, true, true, true, false)), (String ((Ascii
                       (true, false, true, true, false, false, true, false)),
                       (String ((Ascii (true, true, true, true, false, true,
                       true, false)), (String ((Ascii (false, false, true,
                       false, false, true, true, false)), (String ((Ascii
                       (true, false, true, false, false, true, true, false)),
                       (String ((Ascii (false, false, true, true, false,
                       true, true, false)), (String ((Ascii (false, false,
                       true, false, false, false, true, false)), (String
                       ((Ascii (true, false, false, true, true, true, true,
                       false)), (String ((Ascii (false, true, true, true,
                       false, true, true, false)), (String ((Ascii (true,
                       false, false, false, false, true, true, false)),
                       (String ((Ascii (true, false, true, true, false, true,
                       true, false)), (String ((Ascii (true, false, false,
                       true, false, true, true, false)), (String ((Ascii
                       (true, true, false, false, false, true, true, false)),
                       EmptyString)))))))))))))))))))))))))) s)
                | None ->
                  import_from_vue (String ((Ascii (false, true, true, false,
                    true, true, true, false)), (String ((Ascii (true, false,
                    true, true, false, false, true, false)), (String ((Ascii
                    (true, true, true, true, false, true, true, false)),
                    (String ((Ascii (false, false, true, false, false, true,
                    true, false)), (String ((Ascii (true, false, true, false,
                    false, true, true, false)), (String ((Ascii (false,
                    false, true, true, false, true, true, false)), (String
                    ((Ascii (false, false, true, false, true, false, true,
                    false)), (String ((Ascii (true, false, true, false,
                    false, true, true, false)), (String ((Ascii (false,
                    false, false, true, true, true, true, false)), (String
                    ((Ascii (false, false, true, false, true, true, true,
                    false)), EmptyString)))))))))))))))))))) s)
             | Unary (_, _) ->
               let typ =
                 let rec find = function
                 | [] -> None
                 | n :: r ->
                   (match n with
                    | JAttr (name, v) ->
                      (match name with
                       | IdName k ->
                         if (&&)
                              (sq (String ((Ascii (false, false, true, false,
                                true, true, true, false)), (String ((Ascii
                                (true, false, false, true, true, true, true,
                                false)), (String ((Ascii (false, false,
                                false, false, true, true, true, false)),
                                (String ((Ascii (true, false, true, false,
                                false, true, true, false)),
                                EmptyString)))))))) k) (negb (is_nnull v))
                         then Some v
                         else find r
                       | _ -> find r)
                    | _ -> find r)
                 in find attrs
               in
               (match typ with
                | Some n ->
                  (match n with
                   | Str (v, _) ->
                     if sq (String ((Ascii (true, true, false, false, false,
                          true, true, false)), (String ((Ascii (false, false,
                          false, true, false, true, true, false)), (String
                          ((Ascii (true, false, true, false, false, true,
                          true, false)), (String ((Ascii (true, true, false,
                          false, false, true, true, false)), (String ((Ascii
                          (true, true, false, true, false, true, true,
                          false)), (String ((Ascii (false, true, false,
                          false, false, true, true, false)), (String ((Ascii
                          (true, true, true, true, false, true, true,
                          false)), (String ((Ascii (false, false, false,
                          true, true, true, true, false)),
                          EmptyString)))))))))))))))) v
                     then import_from_vue (String ((Ascii (false, true, true,
                            false, true, true, true, false)), (String ((Ascii
                            (true, false, true, true, false, false, true,
                            false)), (String ((Ascii (true, true, true, true,
                            false, true, true, false)), (String ((Ascii
                            (false, false, true, false, false, true, true,
                            false)), (String ((Ascii (true, false, true,
                            false, false, true, true, false)), (String
                            ((Ascii (false, false, true, true, false, true,
                            true, false)), (String ((Ascii (true, true,
                            false, false, false, false, true, false)),
                            (String ((Ascii (false, false, false, true,
                            false, true, true, false)), (String ((Ascii
                            (true, false, true, false, false, true, true,
                            false)), (String ((Ascii (true, true, false,
                            false, false, true, true, false)), (String
                            ((Ascii (true, true, false, true, false, true,
                            true, false)), (String ((Ascii (false, true,
                            false, false, false, true, true, false)), (String
                            ((Ascii (true, true, true, true, false, true,
                            true, false)), (String ((Ascii (false, false,
                            false, true, true, true, true, false)),
                            EmptyString)))))))))))))))))))))))))))) s
                     else if sq (String ((Ascii (false, true, false, false,
                               true, true, true, false)), (String ((Ascii
                               (true, false, false, false, false, true, true,
                               false)), (String ((Ascii (false, false, true,
                               false, false, true, true, false)), (String
                               ((Ascii (true, false, false, true, false,
                               true, true, false)), (String ((Ascii (true,
                               true, true, true, false, true, true, false)),
                               EmptyString)))))))))) v
                          then import_from_vue (String ((Ascii (false, true,
                                 true, false, true, true, true, false)),
                                 (String ((Ascii (true, false, true, true,
                                 false, false, true, false)), (String ((Ascii
                                 (true, true, true, true, false, true, true,
                                 false)), (String ((Ascii (false, false,
                                 true, false, false, true, true, false)),
                                 (String ((Ascii (true, false, true, false,
                                 false, true, true, false)), (String ((Ascii
                                 (false, false, true, true, false, true,
                                 true, false)), (String ((Ascii (false, true,
                                 false, false, true, false, true, false)),
                                 (String ((Ascii (true, false, false, false,
                                 false, true, true, false)), (String ((Ascii
                                 (false, false, true, false, false, true,
                                 true, false)), (String ((Ascii (true, false,
                                 false, true, false, true, true, false)),
                                 (String ((Ascii (true, true, true, true,
                                 false, true, true, false)),
                                 EmptyString)))))))))))))))))))))) s
                          else import_from_vue (String ((Ascii (false, true,
                                 true, false, true, true, true, false)),
                                 (String ((Ascii (true, false, true, true,
                                 false, false, true, false)), (String ((Ascii
                                 (true, true, true, true, false, true, true,
                                 false)), (String ((Ascii (false, false,
                                 true, false, false, true, true, false)),
                                 (String ((Ascii (true, false, true, false,
                                 false, true, true, false)), (String ((Ascii
                                 (false, false, true, true, false, true,
                                 true, false)), (String ((Ascii (false,
                                 false, true, false, true, false, true,
                                 false)), (String ((Ascii (true, false, true,
                                 false, false, true, true, false)), (String
                                 ((Ascii (false, false, false, true, true,
                                 true, true, false)), (String ((Ascii (false,
                                 false, true, false, true, true, true,
                                 false)), EmptyString)))))))))))))))))))) s
                   | _ ->
                     import_from_vue (String ((Ascii (false, true, true,
                       false, true, true, true, false)), (String ((Ascii
                       (true, false, true, true, false, false, true, false)),
                       (String ((Ascii (true, true, true, true, false, true,
                       true, false)), (String ((Ascii (false, false, true,
                       false, false, true, true, false)), (String ((Ascii
                       (true, false, true, false, false, true, true, false)),
                       (String ((Ascii (false, false, true, true, false,
                       true, true, false)), (String ((Ascii (false, false,
                       true, false, false, false, true, false)), (String
                       ((Ascii (true, false, false, true, true, true, true,
                       false)), (String ((Ascii (false, true, true, true,
                       false, true, true, false)), (String ((Ascii (true,
                       false, false, false, false, true, true, false)),
                       (String ((Ascii (true, false, true, true, false, true,
                       true, false)), (String ((Ascii (true, false, false,
                       true, false, true, true, false)), (String ((Ascii
                       (true, true, false, false, false, true, true, false)),
                       EmptyString)))))))))))))))))))))))))) s)
                | None ->
                  import_from_vue (String ((Ascii (false, true, true, false,
                    true, true, true, false)), (String ((Ascii (true, false,
                    true, true, false, false, true, false)), (String ((Ascii
                    (true, true, true, true, false, true, true, false)),
                    (String ((Ascii (false, false, true, false, false, true,
                    true, false)), (String ((Ascii (true, false, true, false,
                    false, true, true, false)), (String ((Ascii (false,
                    false, true, true, false, true, true, false)), (String
                    ((Ascii (false, false, true, false, true, false, true,
                    false)), (String ((Ascii (true, false, true, false,
                    false, true, true, false)), (String ((Ascii (false,
                    false, false, true, true, true, true, false)), (String
                    ((Ascii (false, false, true, false, true, true, true,
                    false)), EmptyString)))))))))))))))))))) s)
             | Member (_, _) ->
               let typ =
                 let rec find = function
                 | [] -> None
                 | n :: r ->
                   (match n with
                    | JAttr (name, v) ->
                      (match name with
                       | IdName k ->
                         if (&&)
                              (sq (String ((Ascii (false, false, true, false,
                                true, true, true, false)), (String ((Ascii
                                (true, false, false, true, true, true, true,
                                false)), (String ((Ascii (false, false,
                                false, false, true, true, true, false)),
                                (String ((Ascii (true, false, true, false,
                                false, true, true, false)),
                                EmptyString)))))))) k) (negb (is_nnull v))
                         then Some v
                         else find r
                       | _ -> find r)
                    | _ -> find r)
                 in find attrs
               in
               (match typ with
                | Some n ->
                  (match n with
                   | Str (v, _) ->
                     if sq (String ((Ascii (true, true, false, false, false,
                          true, true, false)), (String ((Ascii (false, false,
                          false, true, false, true, true, false)), (String
                          ((Ascii (true, false, true, false, false, true,
                          true, false)), (String ((Ascii (true, true, false,
                          false, false, true, true, false)), (String ((Ascii
                          (true, true, false, true, false, true, true,
                          false)), (String ((Ascii (false, true, false,
                          false, false, true, true, false)), (String ((Ascii
                          (true, true, true, true, false, true, true,
                          false)), (String ((Ascii (false, false, false,
                          true, true, true, true, false)),
                          EmptyString)))))))))))))))) v
                     then import_from_vue (String ((Ascii (false, true, true,
                            false, true, true, true, false)), (String ((Ascii
                            (true, false, true, true, false, false, true,
                            false)), (String ((Ascii (true, true, true, true,
                            false, true, true, false)), (String ((Ascii
                            (false, false, true, false, false, true, true,
                            false)), (String ((Ascii (true, false, true,
                            false, false, true, true, false)), (String
                            ((Ascii (false, false, true, true, false, true,
                            true, false)), (String ((Ascii (true, true,
                            false, false, false, false, true, false)),
                            (String ((Ascii (false, false, false, true,
                            false, true, true, false)), (String ((Ascii
                            (true, false, true, false, false, true, true,
                            false)), (String ((Ascii (true, true, false,
                            false, false, true, true, false)), (String
                            ((Ascii (true, true, false, true, false, true,
                            true, false)), (String ((Ascii (false, true,
                            false, false, false, true, true, false)), (String
                            ((Ascii (true, true, true, true, false, true,
                            true, false)), (String ((Ascii (false, false,
                            false, true, true, true, true, false)),
                            EmptyString)))))))))))))))))))))))))))) s
                     else if sq (String ((Ascii (false, true, false, false,
                               true, true, true, false)), (String ((Ascii
                               (true, false, false, false, false, true, true,
                               false)), (String ((Ascii (false, false, true,
                               false, false, true, true, false)), (String
                               ((Ascii (true, false, false, true, false,
                               true, true, false)), (String ((Ascii (true,
                               true, true, true, false, true, true, false)),
                               EmptyString)))))))))) v
                          then import_from_vue (String ((Ascii (false, true,
                                 true, false, true, true, true, false)),
                                 (String ((Ascii (true, false, true, true,
                                 false, false, true, false)), (String ((Ascii
                                 (true, true, true, true, false, true, true,
                                 false)), (String ((Ascii (false, false,
                                 true, false, false, true, true, false)),
                                 (String ((Ascii (true, false, true, false,
                                 false, true, true, false)), (String ((Ascii
                                 (false, false, true, true, false, true,
                                 true, false)), (String ((Ascii (false, true,
                                 false, false, true, false, true, false)),
                                 (String ((Ascii (true, false, false, false,
                                 false, true, true, false)), (String ((Ascii
                                 (false, false, true, false, false, true,
                                 true, false)), (String ((Ascii (true, false,
                                 false, true, false, true, true, false)),
                                 (String ((Ascii (true, true, true, true,
                                 false, true, true, false)),
                                 EmptyString)))))))))))))))))))))) s
                          else import_from_vue (String ((Ascii (false, true,
                                 true, false, true, true, true, false)),
                                 (String ((Ascii (true, false, true, true,
                                 false, false, true, false)), (String ((Ascii
                                 (true, true, true, true, false, true, true,
                                 false)), (String ((Ascii (false, false,
                                 true, false, false, true, true, false)),
                                 (String ((Ascii (true, false, true, false,
                                 false, true, true, false)), (String ((Ascii
                                 (false, false, true, true, false, true,
                                 true, false)), (String ((Ascii (false,
                                 false, true, false, true, false, true,
                                 false)), (String ((Ascii (true, false, true,
                                 false, false, true, true, false)), (String
                                 ((Ascii (false, false, false, true, true,
                                 true, true, false)), (String ((Ascii (false,
                                 false, true, false, true, true, true,
                                 false)), EmptyString)))))))))))))))))))) s
                   | _ ->
                     import_from_vue (String ((Ascii (false, true, true,
                       false, true, true, true, false)), (String ((Ascii
                       (true, false, true, true, false, false, true, false)),
                       (String ((Ascii (true, true, true, true, false, true,
                       true, false)), (String ((Ascii (false, false, true,
                       false, false, true, true, false)), (String ((Ascii
                       (true, false, true, false, false, true, true, false)),
                       (String ((Ascii (false, false, true, true, false,
                       true, true, false)), (String ((Ascii (false, false,
                       true, false, false, false, true, false)), (String
                       ((Ascii (true, false, false, true, true, true, true,
                       false)), (String ((Ascii (false, true, true, true,
                       false, true, true, false)), (String ((Ascii (true,
                       false, false, false, false, true, true, false)),
                       (String ((Ascii (true, false, true, true, false, true,
                       true, false)), (String ((Ascii (true, false, false,
                       true, false, true, true, false)), (String ((Ascii
                       (true, true, false, false, false, true, true, false)),
                       EmptyString)))))))))))))))))))))))))) s)
                | None ->
                  import_from_vue (String ((Ascii (false, true, true, false,
                    true, true, true, false)), (String ((Ascii (true, false,
                    true, true, false, false, true, false)), (String ((Ascii
                    (true, true, true, true, false, true, true, false)),
                    (String ((Ascii (false, false, true, false, false, true,
                    true, false)), (String ((Ascii (true, false, true, false,
                    false, true, true, false)), (String ((Ascii (false,
                    false, true, true, false, true, true, false)), (String
                    ((Ascii (false, false, true, false, true, false, true,
                    false)), (String ((Ascii (true, false, true, false,
                    false, true, true, false)), (String ((Ascii (false,
                    false, false, true, true, true, true, false)), (String
                    ((Ascii (false, false, true, false, true, true, true,
                    false)), EmptyString)))))))))))))))))))) s)
             | Block (_, _) ->
               let typ =
                 let rec find = function
                 | [] -> None
                 | n :: r ->
                   (match n with
                    | JAttr (name, v) ->
                      (match name with
                       | IdName k ->
                         if (&&)
                              (sq (String ((Ascii (false, false, true, false,
                                true, true, true, false)), (String ((Ascii
                                (true, false, false, true, true, true, true,
                                false)), (String ((Ascii (false, false,
                                false, false, true, true, true, false)),
                                (String ((Ascii (true, false, true, false,
                                false, true, true, false)),
                                EmptyString)))))))) k) (negb (is_nnull v))
                         then Some v
                         else find r
                       | _ -> find r)
                    | _ -> find r)
                 in find attrs
               in
               (match typ with
                | Some n ->
                  (match n with
                   | Str (v, _) ->
                     if sq (String ((Ascii (true, true, false, false, false,
                          true, true, false)), (String ((Ascii (false, false,
                          false, true, false, true, true, false)), (String
                          ((Ascii (true, false, true, false, false, true,
                          true, false)), (String ((Ascii (true, true, false,
                          false, false, true, true, false)), (String ((Ascii
                          (true, true, false, true, false, true, true,
                          false)), (String ((Ascii (false, true, false,
                          false, false, true, true, false)), (String ((Ascii
                          (true, true, true, true, false, true, true,
                          false)), (String ((Ascii (false, false, false,
                          true, true, true, true, false)),
                          EmptyString)))))))))))))))) v
                     then import_from_vue (String ((Ascii (false, true, true,
                            false, true, true, true, false)), (String ((Ascii
                            (true, false, true, true, false, false, true,
                            false)), (String ((Ascii (true, true, true, true,
                            false, true, true, false)), (String ((Ascii
                            (false, false, true, false, false, true, true,
                            false)), (String ((Ascii (true, false, true,
                            false, false, true, true, false)), (String
                            ((Ascii (false, false, true, true, false, true,
                            true, false)), (String ((Ascii (true, true,
                            false, false, false, false, true, false)),
                            (String ((Ascii (false, false, false, true,
                            false, true, true, false)), (String ((Ascii
                            (true, false, true, false, false, true, true,
                            false)), (String ((Ascii (true, true, false,
                            false, false, true, true, false)), (String
                            ((Ascii (true, true, false, true, false, true,
                            true, false)), (String ((Ascii (false, true,
                            false, false, false, true, true, false)), (String
                            ((Ascii (true, true, true, true, false, true,
                            true, false)), (String ((Ascii (false, false,
                            false, true, true, true, true, false)),
                            EmptyString)))))))))))))))))))))))))))) s
                     else if sq (String ((Ascii (false, true, false, false,
                               true, true, true, false)), (String ((Ascii
                               (true, false, false, false, false, true, true,
                               false)), (String ((Ascii (false, false, true,
                               false, false, true, true, false)), (String
                               ((Ascii (true, false, false, true, false,
                               true, true, false)), (String ((Ascii (true,
                               true, true, true, false, true, true, false)),
                               EmptyString)))))))))) v
                          then import_from_vue (String ((Ascii (false, true,
                                 true, false, true, true, true, false)),
                                 (String ((Ascii (true, false, true, true,
                                 false, false, true, false)), (String ((Ascii
                                 (true, true, true, true, false, true, true,
                                 false)), (String ((Ascii (false, false,
                                 true, false, false, true, true, false)),
                                 (String ((Ascii (true, false, true, false,
                                 false, true, true, false)), (String ((Ascii
                                 (false, false, true, true, false, true,
                                 true, false)), (String ((Ascii (false, true,
                                 false, false, true, false, true, false)),
                                 (String ((Ascii (true, false, false, false,
                                 false, true, true, false)), (String ((Ascii
                                 (false, false, true, false, false, true,
                                 true, false)), (String ((Ascii (true, false,
                                 false, true, false, true, true, false)),
                                 (String ((Ascii (true, true, true, true,
                                 false, true, true, false)),
                                 EmptyString)))))))))))))))))))))) s
                          else import_from_vue (String ((Ascii (false, true,
                                 true, false, true, true, true, false)),
                                 (String ((Ascii (true, false, true, true,
                                 false, false, true, false)), (String ((Ascii
                                 (true, true, true, true, false, true, true,
                                 false)), (String ((Ascii (false, false,
                                 true, false, false, true, true, false)),
                                 (String ((Ascii (true, false, true, false,
                                 false, true, true, false)), (String ((Ascii
                                 (false, false, true, true, false, true,
                                 true, false)), (String ((Ascii (false,
                                 false, true, false, true, false, true,
                                 false)), (String ((Ascii (true, false, true,
                                 false, false, true, true, false)), (String
                                 ((Ascii (false, false, false, true, true,
                                 true, true, false)), (String ((Ascii (false,
                                 false, true, false, true, true, true,
                                 false)), EmptyString)))))))))))))))))))) s
                   | _ ->
                     import_from_vue (String ((Ascii (false, true, true,
                       false, true, true, true, false)), (String ((Ascii
                       (true, false, true, true, false, false, true, false)),
                       (String ((Ascii (true, true, true, true, false, true,
                       true, false)), (String ((Ascii (false, false, true,
                       false, false, true, true, false)), (String ((Ascii
                       (true, false, true, false, false, true, true, false)),
                       (String ((Ascii (false, false, true, true, false,
                       true, true, false)), (String ((Ascii (false, false,
                       true, false, false, false, true, false)), (String
                       ((Ascii (true, false, false, true, true, true, true,
                       false)), (String ((Ascii (false, true, true, true,
                       false, true, true, false)), (String ((Ascii (true,
                       false, false, false, false, true, true, false)),
                       (String ((Ascii (true, false, true, true, false, true,
                       true, false)), (String ((Ascii (true, false, false,
                       true, false, true, true, false)), (String ((Ascii
                       (true, true, false, false, false, true, true, false)),
                       EmptyString)))))))))))))))))))))))))) s)
                | None ->
                  import_from_vue (String ((Ascii (false, true, true, false,
                    true, true, true, false)), (String ((Ascii (true, false,
                    true, true, false, false, true, false)), (String ((Ascii
                    (true, true, true, true, false, true, true, false)),
                    (String ((Ascii (false, false, true, false, false, true,
                    true, false)), (String ((Ascii (true, false, true, false,
                    false, true, true, false)), (String ((Ascii (false,
                    false, true, true, false, true, true, false)), (String
                    ((Ascii (false, false, true, false, true, false, true,
                    false)), (String ((Ascii (true, false, true, false,
                    false, true, true, false)), (String ((Ascii (false,
                    false, false, true, true, true, true, false)), (String
                    ((Ascii (false, false, true, false, true, true, true,
                    false)), EmptyString)))))))))))))))))))) s)
             | JsxE (_, _, _, _, _, _) ->
               let typ =
                 let rec find = function
                 | [] -> None
                 | n :: r ->
                   (match n with
                    | JAttr (name, v) ->
                      (match name with
                       | IdName k ->
                         if (&&)
                              (sq (String ((Ascii (false, false, true, false,
                                true, true, true, false)), (String ((Ascii
                                (true, false, false, true, true, true, true,
                                false)), (String ((Ascii (false, false,
                                false, false, true, true, true, false)),
                                (String ((Ascii (true, false, true, false,
                                false, true, true, false)),
                                EmptyString)))))))) k) (negb (is_nnull v))
                         then Some v
                         else find r
                       | _ -> find r)
                    | _ -> find r)
                 in find attrs
               in
               (match typ with
                | Some n ->
                  (match n with
                   | Str (v, _) ->
                     if sq (String ((Ascii (true, true, false, false, false,
                          true, true, false)), (String ((Ascii (false, false,
                          false, true, false, true, true, false)), (String
                          ((Ascii (true, false, true, false, false, true,
                          true, false)), (String ((Ascii (true, true, false,
                          false, false, true, true, false)), (String ((Ascii
                          (true, true, false, true, false, true, true,
                          false)), (String ((Ascii (false, true, false,
                          false, false, true, true, false)), (String ((Ascii
                          (true, true, true, true, false, true, true,
                          false)), (String ((Ascii (false, false, false,
                          true, true, true, true, false)),
                          EmptyString)))))))))))))))) v
                     then import_from_vue (String ((Ascii (false, true, true,
                            false, true, true, true, false)), (String ((Ascii
                            (true, false, true, true, false, false, true,
                            false)), (String ((Ascii (true, true, true, true,
                            false, true, true, false)), (String ((Ascii
                            (false, false, true, false, false, true, true,
                            false)), (String ((Ascii (true, false, true,
                            false, false, true, true, false)), (String
                            ((Ascii (false, false, true, true, false, true,
                            true, false)), (String ((Ascii (true, true,
                            false, false, false, false, true, false)),
                            (String ((Ascii (false, false, false, true,
                            false, true, true, false)), (String ((Ascii
                            (true, false, true, false, false, true, true,
                            false)), (String ((Ascii (true, true, false,
                            false, false, true, true, false)), (String
                            ((Ascii (true, true, false, true, false, true,
                            true, false)), (String ((Ascii (false, true,
                            false, false, false, true, true, false)), (String
                            ((Ascii (true, true, true, true, false, true,
                            true, false)), (String ((Ascii (false, false,
                            false, true, true, true, true, false)),
                            EmptyString)))))))))))))))))))))))))))) s
                     else if sq (String ((Ascii (false, true, false, false,
                               true, true, true, false)), (String ((Ascii
                               (true, false, false, false, false, true, true,
                               false)), (String ((Ascii (false, false, true,
                               false, false, true, true, false)), (String
                               ((Ascii (true, false, false, true, false,
                               true, true, false)), (String ((Ascii (true,
                               true, true, true, false, true, true, false)),
                               EmptyString)))))))))) v
                          then import_from_vue (String ((Ascii (false, true,
                                 true, false, true, true, true, false)),
                                 (String ((Ascii (true, false, true, true,
                                 false, false, true, false)), (String ((Ascii
                                 (true, true, true, true, false, true, true,
                                 false)), (String ((Ascii (false, false,
                                 true, false, false, true, true, false)),
                                 (String ((Ascii (true, false, true, false,
                                 false, true, true, false)), (String ((Ascii
                                 (false, false, true, true, false, true,
                                 true, false)), (String ((Ascii (false, true,
                                 false, false, true, false, true, false)),
                                 (String ((Ascii (true, false, false, false,
                                 false, true, true, false)), (String ((Ascii
                                 (false, false, true, false, false, true,
                                 true, false)), (String ((Ascii (true, false,
                                 false, true, false, true, true, false)),
                                 (String ((Ascii (true, true, true, true,
                                 false, true, true, false)),
                                 EmptyString)))))))))))))))))))))) s
                          else import_from_vue (String ((Ascii (false, true,
                                 true, false, true, true, true, false)),
                                 (String ((Ascii (true, false, true, true,
                                 false, false, true, false)), (String ((Ascii
                                 (true, true, true, true, false, true, true,
                                 false)), (String ((Ascii (false, false,
                                 true, false, false, true, true, false)),
                                 (String ((Ascii (true, false, true, false,
                                 false, true, true, false)), (String ((Ascii
                                 (false, false, true, true, false, true,
                                 true, false)), (String ((Ascii (false,
                                 false, true, false, true, false, true,
                                 false)), (String ((Ascii (true, false, true,
                                 false, false, true, true, false)), (String
                                 ((Ascii (false, false, false, true, true,
                                 true, true, false)), (String ((Ascii (false,
                                 false, true, false, true, true, true,
                                 false)), EmptyString)))))))))))))))))))) s
                   | _ ->
                     import_from_vue (String ((Ascii (false, true, true,
                       false, true, true, true, false)), (String ((Ascii
                       (true, false, true, true, false, false, true, false)),
                       (String ((Ascii (true, true, true, true, false, true,
                       true, false)), (String ((Ascii (false, false, true,
                       false, false, true, true, false)), (String ((Ascii
                       (true, false, true, false, false, true, true, false)),
                       (String ((Ascii (false, false, true, true, false,
                       true, true, false)), (String ((Ascii (false, false,
                       true, false, false, false, true, false)), (String
                       ((Ascii (true, false, false, true, true, true, true,
                       false)), (String ((Ascii (false, true, true, true,
                       false, true, true, false)), (String ((Ascii (true,
                       false, false, false, false, true, true, false)),
                       (String ((Ascii (true, false, true, true, false, true,
                       true, false)), (String ((Ascii (true, false, false,
                       true, false, true, true, false)), (String ((Ascii
                       (true, true, false, false, false, true, true, false)),
                       EmptyString)))))))))))))))))))))))))) s)
                | None ->
                  import_from_vue (String ((Ascii (false, true, true, false,
                    true, true, true, false)), (String ((Ascii (true, false,
                    true, true, false, false, true, false)), (String ((Ascii
                    (true, true, true, true, false, true, true, false)),
                    (String ((Ascii (false, false, true, false, false, true,
                    true, false)), (String ((Ascii (true, false, true, false,
                    false, true, true, false)), (String ((Ascii (false,
                    false, true, true, false, true, true, false)), (String
                    ((Ascii (false, false, true, false, true, false, true,
                    false)), (String ((Ascii (true, false, true, false,
                    false, true, true, false)), (String ((Ascii (false,
                    false, false, true, true, true, true, false)), (String
                    ((Ascii (false, false, true, false, true, true, true,
                    false)), EmptyString)))))))))))))))))))) s)
             | JsxF _ ->
               let typ =
                 let rec find = function
                 | [] -> None
                 | n :: r ->
                   (match n with
                    | JAttr (name, v) ->
                      (match name with
                       | IdName k ->
                         if (&&)
                              (sq (String ((Ascii (false, false, true, false,
                                true, true, true, false)), (String ((Ascii
                                (true, false, false, true, true, true, true,
                                false)), (String ((Ascii (false, false,
                                false, false, true, true, true, false)),
                                (String ((Ascii (true, false, true, false,
                                false, true, true, false)),
                                EmptyString)))))))) k) (negb (is_nnull v))
                         then Some v
                         else find r
                       | _ -> find r)
                    | _ -> find r)
                 in find attrs
               in
               (match typ with
                | Some n ->
                  (match n with
                   | Str (v, _) ->
                     if sq (String ((Ascii (true, true, false, false, false,
                          true, true, false)), (String ((Ascii (false, false,
                          false, true, false, true, true, false)), (String
                          ((Ascii (true, false, true, false, false, true,
                          true, false)), (String ((Ascii (true, true, false,
                          false, false, true, true, false)), (String ((Ascii
                          (true, true, false, true, false, true, true,
                          false)), (String ((Ascii (false, true, false,
                          false, false, true, true, false)), (String ((Ascii
                          (true, true, true, true, false, true, true,
                          false)), (String ((Ascii (false, false, false,
                          true, true, true, true, false)),
                          EmptyString)))))))))))))))) v
                     then import_from_vue (String ((Ascii (false, true, true,
                            false, true, true, true, false)), (String ((Ascii
                            (true, false, true, true, false, false, true,
                            false)), (String ((Ascii (true, true, true, true,
                            false, true, true, false)), (String ((Ascii
                            (false, false, true, false, false, true, true,
                            false)), (String ((Ascii (true, false, true,
                            false, false, true, true, false)), (String
                            ((Ascii (false, false, true, true, false, true,
                            true, false)), (String ((Ascii (true, true,
                            false, false, false, false, true, false)),
                            (String ((Ascii (false, false, false, true,
                            false, true, true, false)), (String ((Ascii
                            (true, false, true, false, false, true, true,
                            false)), (String ((Ascii (true, true, false,
                            false, false, true, true, false)), (String
                            ((Ascii (true, true, false, true, false, true,
                            true, false)), (String ((Ascii (false, true,
                            false, false, false, true, true, false)), (String
                            ((Ascii (true, true, true, true, false, true,
                            true, false)), (String ((Ascii (false, false,
                            false, true, true, true, true, false)),
                            EmptyString)))))))))))))))))))))))))))) s
                     else if sq (String ((Ascii (false, true, false, false,
                               true, true, true, false)), (String ((Ascii
                               (true, false, false, false, false, true, true,
                               false)), (String ((Ascii (false, false, true,
                               false, false, true, true, false)), (String
                               ((Ascii (true, false, false, true, false,
                               true, true, false)), (String ((Ascii (true,
                               true, true, true, false, true, true, false)),
                               EmptyString)))))))))) v
                          then import_from_vue (String ((Ascii (false, true,
                                 true, false, true, true, true, false)),
                                 (String ((Ascii (true, false, true, true,
                                 false, false, true, false)), (String ((Ascii
                                 (true, true, true, true, false, true, true,
                                 false)), (String ((Ascii (false, false,
                                 true, false, false, true, true, false)),
                                 (String ((Ascii (true, false, true, false,
                                 false, true, true, false)), (String ((Ascii
                                 (false, false, true, true, false, true,
                                 true, false)), (String ((Ascii (false, true,
                                 false, false, true, false, true, false)),
                                 (String ((Ascii (true, false, false, false,
                                 false, true, true, false)), (String ((Ascii
                                 (false, false, true, false, false, true,
                                 true, false)), (String ((Ascii (true, false,
                                 false, true, false, true, true, false)),
                                 (String ((Ascii (true, true, true, true,
                                 false, true, true, false)),
                                 EmptyString)))))))))))))))))))))) s
                          else import_from_vue (String ((Ascii (false, true,
                                 true, false, true, true, true, false)),
                                 (String ((Ascii (true, false, true, true,
                                 false, false, true, false)), (String ((Ascii
                                 (true, true, true, true, false, true, true,
                                 false)), (String ((Ascii (false, false,
                                 true, false, false, true, true, false)),
                                 (String ((Ascii (true, false, true, false,
                                 false, true, true, false)), (String ((Ascii
                                 (false, false, true, true, false, true,
                                 true, false)), (String ((Ascii (false,
                                 false, true, false, true, false, true,
                                 false)), (String ((Ascii (true, false, true,
                                 false, false, true, true, false)), (String
                                 ((Ascii (false, false, false, true, true,
                                 true, true, false)), (String ((Ascii (false,
                                 false, true, false, true, true, true,
                                 false)), EmptyString)))))))))))))))))))) s
                   | _ ->
                     import_from_vue (String ((Ascii (false, true, true,
                       false, true, true, true, false)), (String ((Ascii
                       (true, false, true, true, false, false, true, false)),
                       (String ((Ascii (true, true, true, true, false, true,
                       true, false)), (String ((Ascii (false, false, true,
                       false, false, true, true, false)), (String ((Ascii
                       (true, false, true, false, false, true, true, false)),
                       (String ((Ascii (false, false, true, true, false,
                       true, true, false)), (String ((Ascii (false, false,
                       true, false, false, false, true, false)), (String
                       ((Ascii (true, false, false, true, true, true, true,
                       false)), (String ((Ascii (false, true, true, true,
                       false, true, true, false)), (String ((Ascii (true,
                       false, false, false, false, true, true, false)),
                       (String ((Ascii (true, false, true, true, false, true,
                       true, false)), (String ((Ascii (true, false, false,
                       true, false, true, true, false)), (String ((Ascii
                       (true, true, false, false, false, true, true, false)),
                       EmptyString)))))))))))))))))))))))))) s)
                | None ->
                  import_from_vue (String ((Ascii (false, true, true, false,
                    true, true, true, false)), (String ((Ascii (true, false,
                    true, true, false, false, true, false)), (String ((Ascii
                    (true, true, true, true, false, true, true, false)),
                    (String ((Ascii (false, false, true, false, false, true,
                    true, false)), (String ((Ascii (true, false, true, false,
                    false, true, true, false)), (String ((Ascii (false,
                    false, true, true, false, true, true, false)), (String
                    ((Ascii (false, false, true, false, true, false, true,
                    false)), (String ((Ascii (true, false, true, false,
                    false, true, true, false)), (String ((Ascii (false,
                    false, false, true, true, true, true, false)), (String
                    ((Ascii (false, false, true, false, true, true, true,
                    false)), EmptyString)))))))))))))))))))) s)
             | JAttr (_, _) ->
               let typ =
                 let rec find = function
                 | [] -> None
                 | n :: r ->
                   (match n with
                    | JAttr (name, v) ->
                      (match name with
                       | IdName k ->
                         if (&&)
                              (sq (String ((Ascii (false, false, true, false,
                                true, true, true, false)), (String ((Ascii
                                (true, false, false, true, true, true, true,
                                false)), (String ((Ascii (false, false,
                                false, false, true, true, true, false)),
                                (String ((Ascii (true, false, true, false,
                                false, true, true, false)),
                                EmptyString)))))))) k) (negb (is_nnull v))
                         then Some v
                         else find r
                       | _ -> find r)
                    | _ -> find r)
                 in find attrs
               in
               (match typ with
                | Some n ->
                  (match n with
                   | Str (v, _) ->
                     if sq (String ((Ascii (true, true, false, false, false,
                          true, true, false)), (String ((Ascii (false, false,
                          false, true, false, true, true, false)), (String
                          ((Ascii (true, false, true, false, false, true,
                          true, false)), (String ((Ascii (true, true, false,
                          false, false, true, true, false)), (String ((Ascii
                          (true, true, false, true, false, true, true,
                          false)), (String ((Ascii (false, true, false,
                          false, false, true, true, false)), (String ((Ascii
                          (true, true, true, true, false, true, true,
                          false)), (String ((Ascii (false, false, false,
                          true, true, true, true, false)),
                          EmptyString)))))))))))))))) v
                     then import_from_vue (String ((Ascii (false, true, true,
                            false, true, true, true, false)), (String ((Ascii
                            (true, false, true, true, false, false, true,
                            false)), (String ((Ascii (true, true, true, true,
                            false, true, true, false)), (String ((Ascii
                            (false, false, true, false, false, true, true,
                            false)), (String ((Ascii (true, false, true,
                            false, false, true, true, false)), (String
                            ((Ascii (false, false, true, true, false, true,
                            true, false)), (String ((Ascii (true, true,
                            false, false, false, false, true, false)),
                            (String ((Ascii (false, false, false, true,
                            false, true, true, false)), (String ((Ascii
                            (true, false, true, false, false, true, true,
                            false)), (String ((Ascii (true, true, false,
                            false, false, true, true, false)), (String
                            ((Ascii (true, true, false, true, false, true,
                            true, false)), (String ((Ascii (false, true,
                            false, false, false, true, true, false)), (String
                            ((Ascii (true, true, true, true, false, true,
                            true, false)), (String ((Ascii (false, false,
                            false, true, true, true, true, false)),
                            EmptyString)))))))))))))))))))))))))))) s
                     else if sq (String ((Ascii (false, true, false, false,
                               true, true, true, false)), (String ((Ascii
                               (true, false, false, false, false, true, true,
                               false)), (String ((Ascii (false, false, true,
                               false, false, true, true, false)), (String
                               ((Ascii (true, false, false, true, false,
                               true, true, false)), (String ((Ascii (true,
                               true, true, true, false, true, true, false)),
                               EmptyString)))))))))) v
                          then import_from_vue (String ((Ascii (false, true,
                                 true, false, true, true, true, false)),
                                 (String ((Ascii (true, false, true, true,
                                 false, false, true, false)), (String ((Ascii
                                 (true, true, true, true, false, true, true,
                                 false)), (String ((Ascii (false, false,
                                 true, false, false, true, true, false)),
                                 (String ((Ascii (true, false, true, false,
                                 false, true, true, false)), (String ((Ascii
                                 (false, false, true, true, false, true,
                                 true, false)), (String ((Ascii (false, true,
                                 false, false, true, false, true, false)),
                                 (String ((Ascii (true, false, false, false,
                                 false, true, true, false)), (String ((Ascii
                                 (false, false, true, false, false, true,
                                 true, false)), (String ((Ascii (true, false,
                                 false, true, false, true, true, false)),
                                 (String ((Ascii (true, true, true, true,
                                 false, true, true, false)),
                                 EmptyString)))))))))))))))))))))) s
                          else import_from_vue (String ((Ascii (false, true,
                                 true, false, true, true, true, false)),
                                 (String ((Ascii (true, false, true, true,
                                 false, false, true, false)), (String ((Ascii
                                 (true, true, true, true, false, true, true,
                                 false)), (String ((Ascii (false, false,
                                 true, false, false, true, true, false)),
                                 (String ((Ascii (true, false, true, false,
                                 false, true, true, false)), (String ((Ascii
                                 (false, false, true, true, false, true,
                                 true, false)), (String ((Ascii (false,
                                 false, true, false, true, false, true,
                                 false)), (String ((Ascii (true, false, true,
                                 false, false, true, true, false)), (String
                                 ((Ascii (false, false, false, true, true,
                                 true, true, false)), (String ((Ascii (false,
                                 false, true, false, true, true, true,
                                 false)), EmptyString)))))))))))))))))))) s
                   | _ ->
                     import_from_vue (String ((Ascii (false, true, true,
                       false, true, true, true, false)), (String ((Ascii
                       (true, false, true, true, false, false, true, false)),
                       (String ((Ascii (true, true, true, true, false, true,
                       true, false)), (String ((Ascii (false, false, true,
                       false, false, true, true, false)), (String ((Ascii
                       (true, false, true, false, false, true, true, false)),
                       (String ((Ascii (false, false, true, true, false,
                       true, true, false)), (String ((Ascii (false, false,
                       true, false, false, false, true, false)), (String
                       ((Ascii (true, false, false, true, true, true, true,
                       false)), (String ((Ascii (false, true, true, true,
                       false, true, true, false)), (String ((Ascii (true,
                       false, false, false, false, true, true, false)),
                       (String ((Ascii (true, false, true, true, false, true,
                       true, false)), (String ((Ascii (true, false, false,
                       true, false, true, true, false)), (String ((Ascii
                       (true, true, false, false, false, true, true, false)),
                       EmptyString)))))))))))))))))))))))))) s)
                | None ->
                  import_from_vue (String ((Ascii (false, true, true, false,
                    true, true, true, false)), (String ((Ascii (true, false,
                    true, true, false, false, true, false)), (String ((Ascii
                    (true, true, true, true, false, true, true, false)),
                    (String ((Ascii (false, false, true, false, false, true,
                    true, false)), (String ((Ascii (true, false, true, false,
                    false, true, true, false)), (String ((Ascii (false,
                    false, true, true, false, true, true, false)), (String
                    ((Ascii (false, false, true, false, true, false, true,
                    false)), (String ((Ascii (true, false, true, false,
                    false, true, true, false)), (String ((Ascii (false,
                    false, false, true, true, true, true, false)), (String
                    ((Ascii (false, false, true, false, true, true, true,
                    false)), EmptyString)))))))))))))))))))) s)
             | JNs (_, _) ->
               let typ =
                 let rec find = function
                 | [] -> None
                 | n :: r ->
                   (match n with
                    | JAttr (name, v) ->
                      (match name with
                       | IdName k ->
                         if (&&)
                              (sq (String ((Ascii (false, false, true, false,
                                true, true, true, false)), (String ((Ascii
                                (true, false, false, true, true, true, true,
                                false)), (String ((Ascii (false, false,
                                false, false, true, true, true, false)),
                                (String ((Ascii (true, false, true, false,
                                false, true, true, false)),
                                EmptyString)))))))) k) (negb (is_nnull v))
                         then Some v
                         else find r
                       | _ -> find r)
                    | _ -> find r)
                 in find attrs
               in
               (match typ with
                | Some n ->
                  (match n with
                   | Str (v, _) ->
                     if sq (String ((Ascii (true, true, false, false, false,
                          true, true, false)), (String ((Ascii (false, false,
                          false, true, false, true, true, false)), (String
                          ((Ascii (true, false, true, false, false, true,
                          true, false)), (String ((Ascii (true, true, false,
                          false, false, true, true, false)), (String ((Ascii
                          (true, true, false, true, false, true, true,
                          false)), (String ((Ascii (false, true, false,
                          false, false, true, true, false)), (String ((Ascii
                          (true, true, true, true, false, true, true,
                          false)), (String ((Ascii (false, false, false,
                          true, true, true, true, false)),
                          EmptyString)))))))))))))))) v
                     then import_from_vue (String ((Ascii (false, true, true,
                            false, true, true, true, false)), (String ((Ascii
                            (true, false, true, true, false, false, true,
                            false)), (String ((Ascii (true, true, true, true,
                            false, true, true, false)), (String ((Ascii
                            (false, false, true, false, false, true, true,
                            false)), (String ((Ascii (true, false, true,
                            false, false, true, true, false)), (String
                            ((Ascii (false, false, true, true, false, true,
                            true, false)), (String ((Ascii (true, true,
                            false, false, false, false, true, false)),
                            (String ((Ascii (false, false, false, true,
                            false, true, true, false)), (String ((Ascii
                            (true, false, true, false, false, true, true,
                            false)), (String ((Ascii (true, true, false,
                            false, false, true, true, false)), (String
                            ((Ascii (true, true, false, true, false, true,
                            true, false)), (String ((Ascii (false, true,
                            false, false, false, true, true, false)), (String
                            ((Ascii (true, true, true, true, false, true,
                            true, false)), (String ((Ascii (false, false,
                            false, true, true, true, true, false)),
                            EmptyString)))))))))))))))))))))))))))) s
                     else if sq (String ((Ascii (false, true, false, false,
                               true, true, true, false)), (String ((Ascii
                               (true, false, false, false, false, true, true,
                               false)), (String ((Ascii (false, false, true,
                               false, false, true, true, false)), (String
                               ((Ascii (true, false, false, true, false,
                               true, true, false)), (String ((Ascii (true,
                               true, true, true, false, true, true, false)),
                               EmptyString)))))))))) v
                          then import_from_vue (String ((Ascii (false, true,
                                 true, false, true, true, true, false)),
                                 (String ((Ascii (true, false, true, true,
                                 false, false, true, false)), (String ((Ascii
                                 (true, true, true, true, false, true, true,
                                 false)), (String ((Ascii (false, false,
                                 true, false, false, true, true, false)),
                                 (String ((Ascii (true, false, true, false,
                                 false, true, true, false)), (String ((Ascii
                                 (false, false, true, true, false, true,
                                 true, false)), (String ((Ascii (false, true,
                                 false, false, true, false, true, false)),
                                 (String ((Ascii (true, false, false, false,
                                 false, true, true, false)), (String ((Ascii
                                 (false, false, true, false, false, true,
                                 true, false)), (String ((Ascii (true, false,
                                 false, true, false, true, true, false)),
                                 (String ((Ascii (true, true, true, true,
                                 false, true, true, false)),
                                 EmptyString)))))))))))))))))))))) s
                          else import_from_vue (String ((Ascii (false, true,
                                 true, false, true, true, true, false)),
                                 (String ((Ascii (true, false, true, true,
                                 false, false, true, false)), (String ((Ascii
                                 (true, true, true, true, false, true, true,
                                 false)), (String ((Ascii (false, false,
                                 true, false, false, true, true, false)),
                                 (String ((Ascii (true, false, true, false,
                                 false, true, true, false)), (String ((Ascii
                                 (false, false, true, true, false, true,
                                 true, false)), (String ((Ascii (false,
                                 false, true, false, true, false, true,
                                 false)), (String ((Ascii (true, false, true,
                                 false, false, true, true, false)), (String
                                 ((Ascii (false, false, false, true, true,
                                 true, true, false)), (String ((Ascii (false,
                                 false, true, false, true, true, true,
                                 false)), EmptyString)))))))))))))))))))) s
                   | _ ->
                     import_from_vue (String ((Ascii (false, true, true,
                       false, true, true, true, false)), (String ((Ascii
                       (true, false, true, true, false, false, true, false)),
                       (String ((Ascii (true, true, true, true, false, true,
                       true, false)), (String ((Ascii (false, false, true,
                       false, false, true, true, false)), (String ((Ascii
                       (true, false, true, false, false, true, true, false)),
                       (String ((Ascii (false, false, true, true, false,
                       true, true, false)), (String ((Ascii (false, false,
                       true, false, false, false, true, false)), (String
                       ((Ascii (true, false, false, true, true, true, true,
                       false)), (String ((Ascii (false, true, true, true,
                       false, true, true, false)), (String ((Ascii (true,
                       false, false, false, false, true, true, false)),
                       (String ((Ascii (true, false, true, true, false, true,
                       true, false)), (String ((Ascii (true, false, false,
                       true, false, true, true, false)), (String ((Ascii
                       (true, true, false, false, false, true, true, false)),
                       EmptyString)))))))))))))))))))))))))) s)
                | None ->
                  import_from_vue (String ((Ascii (false, true, true, false,
                    true, true, true, false)), (String ((Ascii (true, false,
                    true, true, false, false, true, false)), (String ((Ascii
                    (true, true, true, true, false, true, true, false)),
                    (String ((Ascii (false, false, true, false, false, true,
                    true, false)), (String ((Ascii (true, false, true, false,
                    false, true, true, false)), (String ((Ascii (false,
                    false, true, true, false, true, true, false)), (String
                    ((Ascii (false, false, true, false, true, false, true,
                    false)), (String ((Ascii (true, false, true, false,
                    false, true, true, false)), (String ((Ascii (false,
                    false, false, true, true, true, true, false)), (String
                    ((Ascii (false, false, true, false, true, true, true,
                    false)), EmptyString)))))))))))))))))))) s)
             | JExprC _ ->
               let typ =
                 let rec find = function
                 | [] -> None
                 | n :: r ->
                   (match n with
                    | JAttr (name, v) ->
                      (match name with
                       | IdName k ->
                         if (&&)
                              (sq (String ((Ascii (false, false, true, false,
                                true, true, true, false)), (String ((Ascii
                                (true, false, false, true, true, true, true,
                                false)), (String ((Ascii (false, false,
                                false, false, true, true, true, false)),
                                (String ((Ascii (true, false, true, false,
                                false, true, true, false)),
                                EmptyString)))))))) k) (negb (is_nnull v))
                         then Some v
                         else find r
                       | _ -> find r)
                    | _ -> find r)
                 in find attrs
               in
               (match typ with
                | Some n ->
                  (match n with
                   | Str (v, _) ->
                     if sq (String ((Ascii (true, true, false, false, false,
                          true, true, false)), (String ((Ascii (false, false,
                          false, true, false, true, true, false)), (String
                          ((Ascii (true, false, true, false, false, true,
                          true, false)), (String ((Ascii (true, true, false,
                          false, false, true, true, false)), (String ((Ascii
                          (true, true, false, true, false, true, true,
                          false)), (String ((Ascii (false, true, false,
                          false, false, true, true, false)), (String ((Ascii
                          (true, true, true, true, false, true, true,
                          false)), (String ((Ascii (false, false, false,
                          true, true, true, true, false)),
                          EmptyString)))))))))))))))) v
                     then import_from_vue (String ((Ascii (false, true, true,
                            false, true, true, true, false)), (String ((Ascii
                            (true, false, true, true, false, false, true,
                            false)), (String ((Ascii (true, true, true, true,
                            false, true, true, false)), (String ((Ascii
                            (false, false, true, false, false, true, true,
                            false)), (String ((Ascii (true, false, true,
                            false, false, true, true, false)), (String
                            ((Ascii (false, false, true, true, false, true,
                            true, false)), (String ((Ascii (true, true,
                            false, false, false, false, true, false)),
                            (String ((Ascii (false, false, false, true,
                            false, true, true, false)), (String ((Ascii
                            (true, false, true, false, false, true, true,
                            false)), (String ((Ascii (true, true, false,
                            false, false, true, true, false)), (String
                            ((Ascii (true, true, false, true, false, true,
                            true, false)), (String ((Ascii (false, true,
                            false, false, false, true, true, false)), (String
                            ((Ascii (true, true, true, true, false, true,
                            true, false)), (String ((Ascii (false, false,
                            false, true, true, true, true, false)),
                            EmptyString)))))))))))))))))))))))))))) s
                     else if sq (String ((Ascii (false, true, false, false,
                               true, true, true, false)), (String ((Ascii
                               (true, false, false, false, false, true, true,
                               false)), (String ((Ascii (false, false, true,
                               false, false, true, true, false)), (String
                               ((Ascii (true, false, false, true, false,
                               true, true, false)), (String ((Ascii (true,
                               true, true, true, false, true, true, false)),
                               EmptyString)))))))))) v
                          then import_from_vue (String ((Ascii (false, true,
                                 true, false, true, true, true, false)),
                                 (String ((Ascii (true, false, true, true,
                                 false, false, true, false)), (String ((Ascii
                                 (true, true, true, true, false, true, true,
                                 false)), (String ((Ascii (false, false,
                                 true, false, false, true, true, false)),
                                 (String ((Ascii (true, false, true, false,
                                 false, true, true, false)), (String ((Ascii
                                 (false, false, true, true, false, true,
                                 true, false)), (String ((Ascii (false, true,
                                 false, false, true, false, true, false)),
                                 (String ((Ascii (true, false, false, false,
                                 false, true, true, false)), (String ((Ascii
                                 (false, false, true, false, false, true,
                                 true, false)), (String ((Ascii (true, false,
                                 false, true, false, true, true, false)),
                                 (String ((Ascii (true, true, true, true,
                                 false, true, true, false)),
                                 EmptyString)))))))))))))))))))))) s
                          else import_from_vue (String ((Ascii (false, true,
                                 true, false, true, true, true, false)),
                                 (String ((Ascii (true, false, true, true,
                                 false, false, true, false)), (String ((Ascii
                                 (true, true, true, true, false, true, true,
                                 false)), (String ((Ascii (false, false,
                                 true, false, false, true, true, false)),
                                 (String ((Ascii (true, false, true, false,
                                 false, true, true, false)), (String ((Ascii
                                 (false, false, true, true, false, true,
                                 true, false)), (String ((Ascii (false,
                                 false, true, false, true, false, true,
                                 false)), (String ((Ascii (true, false, true,
                                 false, false, true, true, false)), (String
                                 ((Ascii (false, false, false, true, true,
                                 true, true, false)), (String ((Ascii (false,
                                 false, true, false, true, true, true,
                                 false)), EmptyString)))))))))))))))))))) s
                   | _ ->
                     import_from_vue (String ((Ascii (false, true, true,
                       false, true, true, true, false)), (String ((Ascii
                       (true, false, true, true, false, false, true, false)),
                       (String ((Ascii (true, true, true, true, false, true,
                       true, false)), (String ((Ascii (false, false, true,
                       false, false, true, true, false)), (String ((Ascii
                       (true, false, true, false, false, true, true, false)),
                       (String ((Ascii (false, false, true, true, false,
                       true, true, false)), (String ((Ascii (false, false,
                       true, false, false, false, true, false)), (String
                       ((Ascii (true, false, false, true, true, true, true,
                       false)), (String ((Ascii (false, true, true, true,
                       false, true, true, false)), (String ((Ascii (true,
                       false, false, false, false, true, true, false)),
                       (String ((Ascii (true, false, true, true, false, true,
                       true, false)), (String ((Ascii (true, false, false,
                       true, false, true, true, false)), (String ((Ascii
                       (true, true, false, false, false, true, true, false)),
                       EmptyString)))))))))))))))))))))))))) s)
                | None ->
                  import_from_vue (String ((Ascii (false, true, true, false,
                    true, true, true, false)), (String ((Ascii (true, false,
                    true, true, false, false, true, false)), (String ((Ascii
                    (true, true, true, true, false, true, true, false)),
                    (String ((Ascii (false, false, true, false, false, true,
                    true, false)), (String ((Ascii (true, false, true, false,
                    false, true, true, false)), (String ((Ascii (false,
                    false, true, true, false, true, true, false)), (String
                    ((Ascii (false, false, true, false, true, false, true,
                    false)), (String ((Ascii (true, false, true, false,
                    false, true, true, false)), (String ((Ascii (false,
                    false, false, true, true, true, true, false)), (String
                    ((Ascii (false, false, true, false, true, true, true,
                    false)), EmptyString)))))))))))))))))))) s)
             | JEmpty ->
               let typ =
                 let rec find = function
                 | [] -> None
                 | n :: r ->
                   (match n with
                    | JAttr (name, v) ->
                      (match name with
                       | IdName k ->
                         if (&&)
                              (sq (String ((Ascii (false, false, true, false,
                                true, true, true, false)), (String ((Ascii
                                (true, false, false, true, true, true, true,
                                false)), (String ((Ascii (false, false,
                                false, false, true, true, true, false)),
                                (String ((Ascii (true, false, true, false,
                                false, true, true, false)),
                                EmptyString)))))))) k) (negb (is_nnull v))
                         then Some v
                         else find r
                       | _ -> find r)
                    | _ -> find r)
                 in find attrs
               in
               (match typ with
                | Some n ->
                  (match n with
                   | Str (v, _) ->
                     if sq (String ((Ascii (true, true, false, false, false,
                          true, true, false)), (String ((Ascii (false, false,
                          false, true, false, true, true, false)), (String
                          ((Ascii (true, false, true, false, false, true,
                          true, false)), (String ((Ascii (true, true, false,
                          false, false, true, true, false)), (String ((Ascii
                          (true, true, false, true, false, true, true,
                          false)), (String ((Ascii (false, true, false,
                          false, false, true, true, false)), (String ((Ascii
                          (true, true, true, true, false, true, true,
                          false)), (String ((Ascii (false, false, false,
                          true, true, true, true, false)),
                          EmptyString)))))))))))))))) v
                     then import_from_vue (String ((Ascii (false, true, true,
                            false, true, true, true, false)), (String ((Ascii
                            (true, false, true, true, false, false, true,
                            false)), (String ((Ascii (true, true, true, true,
                            false, true, true, false)), (String ((Ascii
                            (false, false, true, false, false, true, true,
                            false)), (String ((Ascii (true, false, true,
                            false, false, true, true, false)), (String
                            ((Ascii (false, false, true, true, false, true,
                            true, false)), (String ((Ascii (true, true,
                            false, false, false, false, true, false)),
                            (String ((Ascii (false, false, false, true,
                            false, true, true, false)), (String ((Ascii
                            (true, false, true, false, false, true, true,
                            false)), (String ((Ascii (true, true, false,
                            false, false, true, true, false)), (String
                            ((Ascii (true, true, false, true, false, true,
                            true, false)), (String ((Ascii (false, true,
                            false, false, false, true, true, false)), (String
                            ((Ascii (true, true, true, true, false, true,
                            true, false)), (String ((Ascii (false, false,
                            false, true, true, true, true, false)),
                            EmptyString)))))))))))))))))))))))))))) s
                     else if sq (String ((Ascii (false, true, false, false,
                               true, true, true, false)), (String ((Ascii
                               (true, false, false, false, false, true, true,
                               false)), (String ((Ascii (false, false, true,
                               false, false, true, true, false)), (String
                               ((Ascii (true, false, false, true, false,
                               true, true, false)), (String ((Ascii (true,
                               true, true, true, false, true, true, false)),
                               EmptyString)))))))))) v
                          then import_from_vue (String ((Ascii (false, true,
                                 true, false, true, true, true, false)),
                                 (String ((Ascii (true, false, true, true,
                                 false, false, true, false)), (String ((Ascii
                                 (true, true, true, true, false, true, true,
                                 false)), (String ((Ascii (false, false,
                                 true, false, false, true, true, false)),
                                 (String ((Ascii (true, false, true, false,
                                 false, true, true, false)), (String ((Ascii
                                 (false, false, true, true, false, true,
                                 true, false)), (String ((Ascii (false, true,
                                 false, false, true, false, true, false)),
                                 (String ((Ascii (true, false, false, false,
                                 false, true, true, false)), (String ((Ascii
                                 (false, false, true, false, false, true,
                                 true, false)), (String ((Ascii (true, false,
                                 false, true, false, true, true, false)),
                                 (String ((Ascii (true, true, true, true,
                                 false, true, true, false)),
                                 EmptyString)))))))))))))))))))))) s
                          else import_from_vue (String ((Ascii (false, true,
                                 true, false, true, true, true, false)),
                                 (String ((Ascii (true, false, true, true,
                                 false, false, true, false)), (String ((Ascii
                                 (true, true, true, true, false, true, true,
                                 false)), (String ((Ascii (false, false,
                                 true, false, false, true, true, false)),
                                 (String ((Ascii (true, false, true, false,
                                 false, true, true, false)), (String ((Ascii
                                 (false, false, true, true, false, true,
                                 true, false)), (String ((Ascii (false,
                                 false, true, false, true, false, true,
                                 false)), (String ((Ascii (true, false, true,
                                 false, false, true, true, false)), (String
                                 ((Ascii (false, false, false, true, true,
                                 true, true, false)), (String ((Ascii (false,
                                 false, true, false, true, true, true,
                                 false)), EmptyString)))))))))))))))))))) s
                   | _ ->
                     import_from_vue (String ((Ascii (false, true, true,
                       false, true, true, true, false)), (String ((Ascii
                       (true, false, true, true, false, false, true, false)),
                       (String ((Ascii (true, true, true, true, false, true,
                       true, false)), (String ((Ascii (false, false, true,
                       false, false, true, true, false)), (String ((Ascii
                       (true, false, true, false, false, true, true, false)),
                       (String ((Ascii (false, false, true, true, false,
                       true, true, false)), (String ((Ascii (false, false,
                       true, false, false, false, true, false)), (String
                       ((Ascii (true, false, false, true, true, true, true,
                       false)), (String ((Ascii (false, true, true, true,
                       false, true, true, false)), (String ((Ascii (true,
                       false, false, false, false, true, true, false)),
                       (String ((Ascii (true, false, true, true, false, true,
                       true, false)), (String ((Ascii (true, false, false,
                       true, false, true, true, false)), (String ((Ascii
                       (true, true, false, false, false, true, true, false)),
                       EmptyString)))))))))))))))))))))))))) s)
                | None ->
                  import_from_vue (String ((Ascii (false, true, true, false,
                    true, true, true, false)), (String ((Ascii (true, false,
                    true, true, false, false, true, false)), (String ((Ascii
                    (true, true, true, true, false, true, true, false)),
                    (String ((Ascii (false, false, true, false, false, true,
                    true, false)), (String ((Ascii (true, false, true, false,
                    false, true, true, false)), (String ((Ascii (false,
                    false, true, true, false, true, true, false)), (String
                    ((Ascii (false, false, true, false, true, false, true,
                    false)), (String ((Ascii (true, false, true, false,
                    false, true, true, false)), (String ((Ascii (false,
                    false, false, true, true, true, true, false)), (String
                    ((Ascii (false, false, true, false, true, true, true,
                    false)), EmptyString)))))))))))))))))))) s)
             | JText (_, _) ->
               let typ =
                 let rec find = function
                 | [] -> None
                 | n :: r ->
                   (match n with
                    | JAttr (name, v) ->
                      (match name with
                       | IdName k ->
                         if (&&)
                              (sq (String ((Ascii (false, false, true, false,
                                true, true, true, false)), (String ((Ascii
                                (true, false, false, true, true, true, true,
                                false)), (String ((Ascii (false, false,
                                false, false, true, true, true, false)),
                                (String ((Ascii (true, false, true, false,
                                false, true, true, false)),
                                EmptyString)))))))) k) (negb (is_nnull v))
                         then Some v
                         else find r
                       | _ -> find r)
                    | _ -> find r)
                 in find attrs
               in
               (match typ with
                | Some n ->
                  (match n with
                   | Str (v, _) ->
                     if sq (String ((Ascii (true, true, false, false, false,
                          true, true, false)), (String ((Ascii (false, false,
                          false, true, false, true, true, false)), (String
                          ((Ascii (true, false, true, false, false, true,
                          true, false)), (String ((Ascii (true, true, false,
                          false, false, true, true, false)), (String ((Ascii
                          (true, true, false, true, false, true, true,
                          false)), (String ((Ascii (false, true, false,
                          false, false, true, true, false)), (String ((Ascii
                          (true, true, true, true, false, true, true,
                          false)), (String ((Ascii (false, false, false,
                          true, true, true, true, false)),
                          EmptyString)))))))))))))))) v
                     then import_from_vue (String ((Ascii (false, true, true,
                            false, true, true, true, false)), (String ((Ascii
                            (true, false, true, true, false, false, true,
                            false)), (String ((Ascii (true, true, true, true,
                            false, true, true, false)), (String ((Ascii
                            (false, false, true, false, false, true, true,
                            false)), (String ((Ascii (true, false, true,
                            false, false, true, true, false)), (String
                            ((Ascii (false, false, true, true, false, true,
                            true, false)), (String ((Ascii (true, true,
                            false, false, false, false, true, false)),
                            (String ((Ascii (false, false, false, true,
                            false, true, true, false)), (String ((Ascii
                            (true, false, true, false, false, true, true,
                            false)), (String ((Ascii (true, true, false,
                            false, false, true, true, false)), (String
                            ((Ascii (true, true, false, true, false, true,
                            true, false)), (String ((Ascii (false, true,
                            false, false, false, true, true, false)), (String
                            ((Ascii (true, true, true, true, false, true,
                            true, false)), (String ((Ascii (false, false,
                            false, true, true, true, true, false)),
                            EmptyString)))))))))))))))))))))))))))) s
                     else if sq (String ((Ascii (false, true, false, false,
                               true, true, true, false)), (String ((Ascii
                               (true, false, false, false, false, true, true,
                               false)), (String ((Ascii (false, false, true,
                               false, false, true, true, false)), (String
                               ((Ascii (true, false, false, true, false,
                               true, true, false)), (String ((Ascii (true,
                               true, true, true, false, true, true, false)),
                               EmptyString)))))))))) v
                          then import_from_vue (String ((Ascii (false, true,
                                 true, false, true, true, true, false)),
                                 (String ((Ascii (true, false, true, true,
                                 false, false, true, false)), (String ((Ascii
                                 (true, true, true, true, false, true, true,
                                 false)), (String ((Ascii (false, false,
                                 true, false, false, true, true, false)),
                                 (String ((Ascii (true, false, true, false,
                                 false, true, true, false)), (String ((Ascii
                                 (false, false, true, true, false, true,
                                 true, false)), (String ((Ascii (false, true,
                                 false, false, true, false, true, false)),
                                 (String ((Ascii (true, false, false, false,
                                 false, true, true, false)), (String ((Ascii
                                 (false, false, true, false, false, true,
                                 true, false)), (String ((Ascii (true, false,
                                 false, true, false, true, true, false)),
                                 (String ((Ascii (true, true, true, true,
                                 false, true, true, false)),
                                 EmptyString)))))))))))))))))))))) s
                          else import_from_vue (String ((Ascii (false, true,
                                 true, false, true, true, true, false)),
                                 (String ((Ascii (true, false, true, true,
                                 false, false, true, false)), (String ((Ascii
                                 (true, true, true, true, false, true, true,
                                 false)), (String ((Ascii (false, false,
                                 true, false, false, true, true, false)),
                                 (String ((Ascii (true, false, true, false,
                                 false, true, true, false)), (String ((Ascii
                                 (false, false, true, true, false, true,
                                 true, false)), (String ((Ascii (false,
                                 false, true, false, true, false, true,
                                 false)), (String ((Ascii (true, false, true,
                                 false, false, true, true, false)), (String
                                 ((Ascii (false, false, false, true, true,
                                 true, true, false)), (String ((Ascii (false,
                                 false, true, false, true, true, true,
                                 false)), EmptyString)))))))))))))))))))) s
                   | _ ->
                     import_from_vue (String ((Ascii (false, true, true,
                       false, true, true, true, false)), (String ((Ascii
                       (true, false, true, true, false, false, true, false)),
                       (String ((Ascii (true, true, true, true, false, true,
                       true, false)), (String ((Ascii (false, false, true,
                       false, false, true, true, false)), (String ((Ascii
                       (true, false, true, false, false, true, true, false)),
                       (String ((Ascii (false, false, true, true, false,
                       true, true, false)), (String ((Ascii (false, false,
                       true, false, false, false, true, false)), (String
                       ((Ascii (true, false, false, true, true, true, true,
                       false)), (String ((Ascii (false, true, true, true,
                       false, true, true, false)), (String ((Ascii (true,
                       false, false, false, false, true, true, false)),
                       (String ((Ascii (true, false, true, true, false, true,
                       true, false)), (String ((Ascii (true, false, false,
                       true, false, true, true, false)), (String ((Ascii
                       (true, true, false, false, false, true, true, false)),
                       EmptyString)))))))))))))))))))))))))) s)
                | None ->
                  import_from_vue (String ((Ascii (false, true, true, false,
                    true, true, true, false)), (String ((Ascii (true, false,
                    true, true, false, false, true, false)), (String ((Ascii
                    (true, true, true, true, false, true, true, false)),
                    (String ((Ascii (false, false, true, false, false, true,
                    true, false)), (String ((Ascii (true, false, true, false,
                    false, true, true, false)), (String ((Ascii (false,
                    false, true, true, false, true, true, false)), (String
                    ((Ascii (false, false, true, false, true, false, true,
                    false)), (String ((Ascii (true, false, true, false,
                    false, true, true, false)), (String ((Ascii (false,
                    false, false, true, true, true, true, false)), (String
                    ((Ascii (false, false, true, false, true, true, true,
                    false)), EmptyString)))))))))))))))))))) s)
             | JSpreadChild _ ->
               let typ =
                 let rec find = function
                 | [] -> None
                 | n :: r ->
                   (match n with
                    | JAttr (name, v) ->
                      (match name with
                       | IdName k ->
                         if (&&)
                              (sq (String ((Ascii (false, false, true, false,
                                true, true, true, false)), (String ((Ascii
                                (true, false, false, true, true, true, true,
                                false)), (String ((Ascii (false, false,
                                false, false, true, true, true, false)),
                                (String ((Ascii (true, false, true, false,
                                false, true, true, false)),
                                EmptyString)))))))) k) (negb (is_nnull v))
                         then Some v
                         else find r
                       | _ -> find r)
                    | _ -> find r)
                 in find attrs
               in
               (match typ with
                | Some n ->
                  (match n with
                   | Str (v, _) ->
                     if sq (String ((Ascii (true, true, false, false, false,
                          true, true, false)), (String ((Ascii (false, false,
                          false, true, false, true, true, false)), (String
                          ((Ascii (true, false, true, false, false, true,
                          true, false)), (String ((Ascii (true, true, false,
                          false, false, true, true, false)), (String ((Ascii
                          (true, true, false, true, false, true, true,
                          false)), (String ((Ascii (false, true, false,
                          false, false, true, true, false)), (String ((Ascii
                          (true, true, true, true, false, true, true,
                          false)), (String ((Ascii (false, false, false,
                          true, true, true, true, false)),
                          EmptyString)))))))))))))))) v
                     then import_from_vue (String ((Ascii (false, true, true,
                            false, true, true, true, false)), (String ((Ascii
                            (true, false, true, true, false, false, true,
                            false)), (String ((Ascii (true, true, true, true,
                            false, true, true, false)), (String ((Ascii
                            (false, false, true, false, false, true, true,
                            false)), (String ((Ascii (true, false, true,
                            false, false, true, true, false)), (String
                            ((Ascii (false, false, true, true, false, true,
                            true, false)), (String ((Ascii (true, true,
                            false, false, false, false, true, false)),
                            (String ((Ascii (false, false, false, true,
                            false, true, true, false)), (String ((Ascii
                            (true, false, true, false, false, true, true,
                            false)), (String ((Ascii (true, true, false,
                            false, false, true, true, false)), (String
                            ((Ascii (true, true, false, true, false, true,
                            true, false)), (String ((Ascii (false, true,
                            false, false, false, true, true, false)), (String
                            ((Ascii (true, true, true, true, false, true,
                            true, false)), (String ((Ascii (false, false,
                            false, true, true, true, true, false)),
                            EmptyString)))))))))))))))))))))))))))) s
                     else if sq (String ((Ascii (false, true, false, false,
                               true, true, true, false)), (String ((Ascii
                               (true, false, false, false, false, true, true,
                               false)), (String ((Ascii (false, false, true,
                               false, false, true, true, false)), (String
                               ((Ascii (true, false, false, true, false,
                               true, true, false)), (String ((Ascii (true,
                               true, true, true, false, true, true, false)),
                               EmptyString)))))))))) v
                          then import_from_vue (String ((Ascii (false, true,
                                 true, false, true, true, true, false)),
                                 (String ((Ascii (true, false, true, true,
                                 false, false, true, false)), (String ((Ascii
                                 (true, true, true, true, false, true, true,
                                 false)), (String ((Ascii (false, false,
                                 true, false, false, true, true, false)),
                                 (String ((Ascii (true, false, true, false,
                                 false, true, true, false)), (String ((Ascii
                                 (false, false, true, true, false, true,
                                 true, false)), (String ((Ascii (false, true,
                                 false, false, true, false, true, false)),
                                 (String ((Ascii (true, false, false, false,
                                 false, true, true, false)), (String ((Ascii
                                 (false, false, true, false, false, true,
                                 true, false)), (String ((Ascii (true, false,
                                 false, true, false, true, true, false)),
                                 (String ((Ascii (true, true, true, true,
                                 false, true, true, false)),
                                 EmptyString)))))))))))))))))))))) s
                          else import_from_vue (String ((Ascii (false, true,
                                 true, false, true, true, true, false)),
                                 (String ((Ascii (true, false, true, true,
                                 false, false, true, false)), (String ((Ascii
                                 (true, true, true, true, false, true, true,
                                 false)), (String ((Ascii (false, false,
                                 true, false, false, true, true, false)),
                                 (String ((Ascii (true, false, true, false,
                                 false, true, true, false)), (String ((Ascii
                                 (false, false, true, true, false, true,
                                 true, false)), (String ((Ascii (false,
                                 false, true, false, true, false, true,
                                 false)), (String ((Ascii (true, false, true,
                                 false, false, true, true, false)), (String
                                 ((Ascii (false, false, false, true, true,
                                 true, true, false)), (String ((Ascii (false,
                                 false, true, false, true, true, true,
                                 false)), EmptyString)))))))))))))))))))) s
                   | _ ->
                     import_from_vue (String ((Ascii (false, true, true,
                       false, true, true, true, false)), (String ((Ascii
                       (true, false, true, true, false, false, true, false)),
                       (String ((Ascii (true, true, true, true, false, true,
                       true, false)), (String ((Ascii (false, false, true,
                       false, false, true, true, false)), (String ((Ascii
                       (true, false, true, false, false, true, true, false)),
                       (String ((Ascii (false, false, true, true, false,
                       true, true, false)), (String ((Ascii (false, false,
                       true, false, false, false, true, false)), (String
                       ((Ascii (true, false, false, true, true, true, true,
                       false)), (String ((Ascii (false, true, true, true,
                       false, true, true, false)), (String ((Ascii (true,
                       false, false, false, false, true, true, false)),
                       (String ((Ascii (true, false, true, true, false, true,
                       true, false)), (String ((Ascii (true, false, false,
                       true, false, true, true, false)), (String ((Ascii
                       (true, true, false, false, false, true, true, false)),
                       EmptyString)))))))))))))))))))))))))) s)
                | None ->
                  import_from_vue (String ((Ascii (false, true, true, false,
                    true, true, true, false)), (String ((Ascii (true, false,
                    true, true, false, false, true, false)), (String ((Ascii
                    (true, true, true, true, false, true, true, false)),
                    (String ((Ascii (false, false, true, false, false, true,
                    true, false)), (String ((Ascii (true, false, true, false,
                    false, true, true, false)), (String ((Ascii (false,
                    false, true, true, false, true, true, false)), (String
                    ((Ascii (false, false, true, false, true, false, true,
                    false)), (String ((Ascii (true, false, true, false,
                    false, true, true, false)), (String ((Ascii (false,
                    false, false, true, true, true, true, false)), (String
                    ((Ascii (false, false, true, false, true, true, true,
                    false)), EmptyString)))))))))))))))))))) s))
       else let (h, s0) =
              import_from_vue (String ((Ascii (false, true, false, false,
                true, true, true, false)), (String ((Ascii (true, false,
                true, false, false, true, true, false)), (String ((Ascii
                (true, true, false, false, true, true, true, false)), (String
                ((Ascii (true, true, true, true, false, true, true, false)),
                (String ((Ascii (false, false, true, true, false, true, true,
                false)), (String ((Ascii (false, true, true, false, true,
                true, true, false)), (String ((Ascii (true, false, true,
                false, false, true, true, false)), (String ((Ascii (false,
                false, true, false, false, false, true, false)), (String
                ((Ascii (true, false, false, true, false, true, true,
                false)), (String ((Ascii (false, true, false, false, true,
                true, true, false)), (String ((Ascii (true, false, true,
                false, false, true, true, false)), (String ((Ascii (true,
                true, false, false, false, true, true, false)), (String
                ((Ascii (false, false, true, false, true, true, true,
                false)), (String ((Ascii (true, false, false, true, false,
                true, true, false)), (String ((Ascii (false, true, true,
                false, true, true, true, false)), (String ((Ascii (true,
                false, true, false, false, true, true, false)),
                EmptyString)))))))))))))))))))))))))))))))) s
            in
            ((mk_call h ((mk_str dname) :: [])), s0)

(** val opt_list : node option -> node list **)

let opt_list = function
| Some x -> x :: []
| None -> []

(** val build_directives :
    directive list -> node -> node list -> st -> node list * st **)

let rec build_directives dirs tag attrs s =
  match dirs with
  | [] -> ([], s)
  | d :: r ->
    (match d with
     | DNormal (name, argument, modifiers, value) ->
       let (d0, s0) = resolve_directive name tag attrs s in
       let (r', s1) = build_directives r tag attrs s0 in
       (((Elem (false, (Arr
       (map (fun x -> Elem (false, x))
         (app (d0 :: (value :: []))
           (app (opt_list argument) (opt_list modifiers))))))) :: r'), s1)
     | _ -> build_directives r tag attrs s)

(** val lower_children_with :
    env -> (node -> st -> node * st) -> node list -> st -> node list * st **)

let rec lower_children_with e rec0 cs s =
  match cs with
  | [] -> ([], s)
  | c :: r ->
    (match c with
     | NScalar _ ->
       let o = [] in
       let (r', s0) = lower_children_with e rec0 r s in ((app o r'), s0)
     | NArr _ ->
       let o = [] in
       let (r', s0) = lower_children_with e rec0 r s in ((app o r'), s0)
     | NObj _ ->
       let o = [] in
       let (r', s0) = lower_children_with e rec0 r s in ((app o r'), s0)
     | Field (_, _) ->
       let o = [] in
       let (r', s0) = lower_children_with e rec0 r s in ((app o r'), s0)
     | Ident (_, _, _) ->
       let o = [] in
       let (r', s0) = lower_children_with e rec0 r s in ((app o r'), s0)
     | BIdent (_, _, _, _) ->
       let o = [] in
       let (r', s0) = lower_children_with e rec0 r s in ((app o r'), s0)
     | IdName _ ->
       let o = [] in
       let (r', s0) = lower_children_with e rec0 r s in ((app o r'), s0)
     | Str (_, _) ->
       let o = [] in
       let (r', s0) = lower_children_with e rec0 r s in ((app o r'), s0)
     | Num (_, _) ->
       let o = [] in
       let (r', s0) = lower_children_with e rec0 r s in ((app o r'), s0)
     | Bool _ ->
       let o = [] in
       let (r', s0) = lower_children_with e rec0 r s in ((app o r'), s0)
     | Null ->
       let o = [] in
       let (r', s0) = lower_children_with e rec0 r s in ((app o r'), s0)
     | Arr _ ->
       let o = [] in
       let (r', s0) = lower_children_with e rec0 r s in ((app o r'), s0)
     | Elem (_, _) ->
       let o = [] in
       let (r', s0) = lower_children_with e rec0 r s in ((app o r'), s0)
     | Hole ->
       let o = [] in
       let (r', s0) = lower_children_with e rec0 r s in ((app o r'), s0)
     | Obj _ ->
       let o = [] in
       let (r', s0) = lower_children_with e rec0 r s in ((app o r'), s0)
     | KV (_, _) ->
       let o = [] in
       let (r', s0) = lower_children_with e rec0 r s in ((app o r'), s0)
     | Computed _ ->
       let o = [] in
       let (r', s0) = lower_children_with e rec0 r s in ((app o r'), s0)
     | Spread _ ->
       let o = [] in
       let (r', s0) = lower_children_with e rec0 r s in ((app o r'), s0)
     | Call (_, _, _, _, _) ->
       let o = [] in
       let (r', s0) = lower_children_with e rec0 r s in ((app o r'), s0)
     | Arrow (_, _, _, _, _, _, _) ->
       let o = [] in
       let (r', s0) = lower_children_with e rec0 r s in ((app o r'), s0)
     | Assign (_, _, _) ->
       let o = [] in
       let (r', s0) = lower_children_with e rec0 r s in ((app o r'), s0)
     | Paren _ ->
       let o = [] in
       let (r', s0) = lower_children_with e rec0 r s in ((app o r'), s0)
     | Cond (_, _, _) ->
       let o = [] in
       let (r', s0) = lower_children_with e rec0 r s in ((app o r'), s0)
     | Bin (_, _, _) ->
       let o = [] in
       let (r', s0) = lower_children_with e rec0 r s in ((app o r'), s0)
     | Unary (_, _) ->
       let o = [] in
       let (r', s0) = lower_children_with e rec0 r s in ((app o r'), s0)
     | Member (_, _) ->
       let o = [] in
       let (r', s0) = lower_children_with e rec0 r s in ((app o r'), s0)
     | Block (_, _) ->
       let o = [] in
       let (r', s0) = lower_children_with e rec0 r s in ((app o r'), s0)
     | JsxE (_, _, _, _, _, _) ->
       let (x, s0) = rec0 c s in
       let o = (Elem (false, x)) :: [] in
       let (r', s1) = lower_children_with e rec0 r s0 in ((app o r'), s1)
     | JsxF _ ->
       let (x, s0) = rec0 c s in
       let o = (Elem (false, x)) :: [] in
       let (r', s1) = lower_children_with e rec0 r s0 in ((app o r'), s1)
     | JExprC e0 ->
       (match e0 with
        | JEmpty ->
          let o = [] in
          let (r', s0) = lower_children_with e rec0 r s in ((app o r'), s0)
        | _ ->
          let o = (Elem (false, e0)) :: [] in
          let s0 = mark_dynamic e e0 s in
          let (r', s1) = lower_children_with e rec0 r s0 in ((app o r'), s1))
     | JText (v, _) ->
       let (t, s0) = transform_jsx_text v s in
       let o = match t with
               | Some t0 -> (Elem (false, t0)) :: []
               | None -> []
       in
       let (r', s1) = lower_children_with e rec0 r s0 in ((app o r'), s1)
     | JSpreadChild e0 ->
       let o = (Elem (true, e0)) :: [] in
       let s0 = mark_dynamic e e0 s in
       let (r', s1) = lower_children_with e rec0 r s0 in ((app o r'), s1)
     | _ ->
       let o = [] in
       let (r', s0) = lower_children_with e rec0 r s in ((app o r'), s0))

(** val lower_attr_values_with :
    (node -> st -> node * st) -> node list -> st -> node list * st **)

let rec lower_attr_values_with rec0 l s =
  match l with
  | [] -> ([], s)
  | a :: r ->
    (match a with
     | JAttr (nm, v) ->
       (match v with
        | JsxE (_, _, _, _, _, _) ->
          if is_directive a
          then let (r', s0) = lower_attr_values_with rec0 r s in
               ((a :: r'), s0)
          else let (x, s0) = rec0 v s in
               let a' = JAttr (nm, (JExprC x)) in
               let (r', s1) = lower_attr_values_with rec0 r s0 in
               ((a' :: r'), s1)
        | JsxF _ ->
          if is_directive a
          then let (r', s0) = lower_attr_values_with rec0 r s in
               ((a :: r'), s0)
          else let (x, s0) = rec0 v s in
               let a' = JAttr (nm, (JExprC x)) in
               let (r', s1) = lower_attr_values_with rec0 r s0 in
               ((a' :: r'), s1)
        | _ ->
          let (r', s0) = lower_attr_values_with rec0 r s in ((a :: r'), s0))
     | _ -> let (r', s0) = lower_attr_values_with rec0 r s in ((a :: r'), s0))

(** val vnode_hints : env -> attrs_result -> node list **)

let vnode_hints e =
  let o = e.e_opts in
  (fun ar ->
  if o.o_optimize
  then app (if N.eqb ar.r_flags N0 then [] else (mk_num ar.r_flags) :: [])
         (match ar.r_dyn with
          | Some d ->
            (match d with
             | [] -> []
             | _ :: _ ->
               (Arr (map (fun p -> Elem (false, (mk_str p))) d)) :: [])
          | None -> [])
  else [])

(** val push_slot_flag : env -> st -> st **)

let push_slot_flag e =
  let o = e.e_opts in
  (fun s ->
  if o.o_optimize
  then set_slot_stack (app s.slot_stack (false :: [])) s
  else s)

(** val lower_el : env -> node -> st -> node * st **)

let rec lower_el e n s =
  match n with
  | JsxE (name, attrs0, _, _, children, _) ->
    let s0 = push_slot_flag e s in
    let is_comp = is_component e name in
    let (attrs, s1) = lower_attr_values_with (lower_el e) attrs0 s0 in
    let ar = transform_attrs e attrs is_comp s1 in
    let (tag, s2) = transform_tag e name ar.r_st in
    let (elems, s3) = lower_children_with e (lower_el e) children s2 in
    let (ch, s4) = finish_children e elems is_comp ar.r_slots s3 in
    let (callee, s5) = get_pragma e s4 in
    let call =
      mk_call callee
        (app (tag :: (ar.r_attrs :: (ch :: []))) (vnode_hints e ar))
    in
    (match ar.r_dirs with
     | [] -> (call, s5)
     | d :: l ->
       let (wd, s6) =
         import_from_vue (String ((Ascii (true, true, true, false, true,
           true, true, false)), (String ((Ascii (true, false, false, true,
           false, true, true, false)), (String ((Ascii (false, false, true,
           false, true, true, true, false)), (String ((Ascii (false, false,
           false, true, false, true, true, false)), (String ((Ascii (false,
           false, true, false, false, false, true, false)), (String ((Ascii
           (true, false, false, true, false, true, true, false)), (String
           ((Ascii (false, true, false, false, true, true, true, false)),
           (String ((Ascii (true, false, true, false, false, true, true,
           false)), (String ((Ascii (true, true, false, false, false, true,
           true, false)), (String ((Ascii (false, false, true, false, true,
           true, true, false)), (String ((Ascii (true, false, false, true,
           false, true, true, false)), (String ((Ascii (false, true, true,
           false, true, true, true, false)), (String ((Ascii (true, false,
           true, false, false, true, true, false)), (String ((Ascii (true,
           true, false, false, true, true, true, false)),
           EmptyString)))))))))))))))))))))))))))) s5
       in
       let (ds, s7) = build_directives (d :: l) name attrs s6 in
       ((mk_call wd (call :: ((Arr ds) :: []))), s7))
  | JsxF children ->
    let s0 = push_slot_flag e s in
    let (callee, s1) = get_pragma e s0 in
    let (frag, s2) =
      import_from_vue (String ((Ascii (false, true, true, false, false,
        false, true, false)), (String ((Ascii (false, true, false, false,
        true, true, true, false)), (String ((Ascii (true, false, false,
        false, false, true, true, false)), (String ((Ascii (true, true, true,
        false, false, true, true, false)), (String ((Ascii (true, false,
        true, true, false, true, true, false)), (String ((Ascii (true, false,
        true, false, false, true, true, false)), (String ((Ascii (false,
        true, true, true, false, true, true, false)), (String ((Ascii (false,
        false, true, false, true, true, true, false)),
        EmptyString)))))))))))))))) s1
    in
    let (elems, s3) = lower_children_with e (lower_el e) children s2 in
    let (ch, s4) = finish_children e elems false None s3 in
    ((mk_call callee (frag :: (Null :: (ch :: [])))), s4)
  | _ -> (n, s)
