open Ascii
open BinNat
open BinNums
open Datatypes
open List
open String

type str = coq_N list

(** val str_eqb : str -> str -> bool **)

let rec str_eqb a b =
  match a with
  | [] -> (match b with
           | [] -> true
           | _ :: _ -> false)
  | x :: a' ->
    (match b with
     | [] -> false
     | y :: b' -> (&&) (N.eqb x y) (str_eqb a' b'))

(** val s_ : string -> str **)

let rec s_ = function
| EmptyString -> []
| String (c, r) -> (coq_N_of_ascii c) :: (s_ r)

(** val c_ : string -> coq_N **)

let c_ = function
| EmptyString -> N0
| String (c, _) -> coq_N_of_ascii c

(** val starts_with : str -> str -> bool **)

let rec starts_with p s =
  match p with
  | [] -> true
  | x :: p' ->
    (match s with
     | [] -> false
     | y :: s' -> (&&) (N.eqb x y) (starts_with p' s'))

(** val strip_prefix : str -> str -> str option **)

let rec strip_prefix p s =
  match p with
  | [] -> Some s
  | x :: p' ->
    (match s with
     | [] -> None
     | y :: s' -> if N.eqb x y then strip_prefix p' s' else None)

(** val split_on : coq_N -> str -> str list **)

let rec split_on c = function
| [] -> [] :: []
| x :: r ->
  if N.eqb x c
  then [] :: (split_on c r)
  else (match split_on c r with
        | [] -> (x :: []) :: []
        | p :: ps -> (x :: p) :: ps)

(** val join : str -> str list -> str **)

let rec join sep = function
| [] -> []
| a :: r -> (match r with
             | [] -> a
             | _ :: _ -> app a (app sep (join sep r)))

(** val replace_char : coq_N -> coq_N -> str -> str **)

let replace_char a b s =
  map (fun x -> if N.eqb x a then b else x) s

(** val replace_crlf : str -> str **)

let rec replace_crlf = function
| [] -> []
| x :: r ->
  (match x with
   | N0 -> x :: (replace_crlf r)
   | Npos p ->
     (match p with
      | Coq_xI p0 ->
        (match p0 with
         | Coq_xO p1 ->
           (match p1 with
            | Coq_xI p2 ->
              (match p2 with
               | Coq_xH ->
                 (match r with
                  | [] -> x :: (replace_crlf r)
                  | n :: _ ->
                    (match n with
                     | N0 -> x :: (replace_crlf r)
                     | Npos p3 ->
                       (match p3 with
                        | Coq_xO p4 ->
                          (match p4 with
                           | Coq_xI p5 ->
                             (match p5 with
                              | Coq_xO p6 ->
                                (match p6 with
                                 | Coq_xH -> replace_crlf r
                                 | _ -> x :: (replace_crlf r))
                              | _ -> x :: (replace_crlf r))
                           | _ -> x :: (replace_crlf r))
                        | _ -> x :: (replace_crlf r))))
               | _ -> x :: (replace_crlf r))
            | _ -> x :: (replace_crlf r))
         | _ -> x :: (replace_crlf r))
      | _ -> x :: (replace_crlf r)))

(** val trim_start_c : coq_N -> str -> str **)

let rec trim_start_c c s = match s with
| [] -> []
| x :: r -> if N.eqb x c then trim_start_c c r else s

(** val trim_end_c : coq_N -> str -> str **)

let trim_end_c c s =
  rev (trim_start_c c (rev s))

(** val is_ws : coq_N -> bool **)

let is_ws c =
  (||)
    ((||)
      ((||)
        ((||)
          ((||)
            ((||)
              ((||)
                ((||)
                  ((||)
                    ((||)
                      ((&&)
                        (N.leb (Npos (Coq_xI (Coq_xO (Coq_xO Coq_xH)))) c)
                        (N.leb c (Npos (Coq_xI (Coq_xO (Coq_xI Coq_xH))))))
                      (N.eqb c (Npos (Coq_xO (Coq_xO (Coq_xO (Coq_xO (Coq_xO
                        Coq_xH))))))))
                    (N.eqb c (Npos (Coq_xI (Coq_xO (Coq_xI (Coq_xO (Coq_xO
                      (Coq_xO (Coq_xO Coq_xH))))))))))
                  (N.eqb c (Npos (Coq_xO (Coq_xO (Coq_xO (Coq_xO (Coq_xO
                    (Coq_xI (Coq_xO Coq_xH))))))))))
                (N.eqb c (Npos (Coq_xO (Coq_xO (Coq_xO (Coq_xO (Coq_xO
                  (Coq_xO (Coq_xO (Coq_xI (Coq_xO (Coq_xI (Coq_xI (Coq_xO
                  Coq_xH)))))))))))))))
              ((&&)
                (N.leb (Npos (Coq_xO (Coq_xO (Coq_xO (Coq_xO (Coq_xO (Coq_xO
                  (Coq_xO (Coq_xO (Coq_xO (Coq_xO (Coq_xO (Coq_xO (Coq_xO
                  Coq_xH)))))))))))))) c)
                (N.leb c (Npos (Coq_xO (Coq_xI (Coq_xO (Coq_xI (Coq_xO
                  (Coq_xO (Coq_xO (Coq_xO (Coq_xO (Coq_xO (Coq_xO (Coq_xO
                  (Coq_xO Coq_xH)))))))))))))))))
            (N.eqb c (Npos (Coq_xO (Coq_xO (Coq_xO (Coq_xI (Coq_xO (Coq_xI
              (Coq_xO (Coq_xO (Coq_xO (Coq_xO (Coq_xO (Coq_xO (Coq_xO
              Coq_xH))))))))))))))))
          (N.eqb c (Npos (Coq_xI (Coq_xO (Coq_xO (Coq_xI (Coq_xO (Coq_xI
            (Coq_xO (Coq_xO (Coq_xO (Coq_xO (Coq_xO (Coq_xO (Coq_xO
            Coq_xH))))))))))))))))
        (N.eqb c (Npos (Coq_xI (Coq_xI (Coq_xI (Coq_xI (Coq_xO (Coq_xI
          (Coq_xO (Coq_xO (Coq_xO (Coq_xO (Coq_xO (Coq_xO (Coq_xO
          Coq_xH))))))))))))))))
      (N.eqb c (Npos (Coq_xI (Coq_xI (Coq_xI (Coq_xI (Coq_xI (Coq_xO (Coq_xI
        (Coq_xO (Coq_xO (Coq_xO (Coq_xO (Coq_xO (Coq_xO Coq_xH))))))))))))))))
    (N.eqb c (Npos (Coq_xO (Coq_xO (Coq_xO (Coq_xO (Coq_xO (Coq_xO (Coq_xO
      (Coq_xO (Coq_xO (Coq_xO (Coq_xO (Coq_xO (Coq_xI Coq_xH)))))))))))))))

(** val trim_start : str -> str **)

let rec trim_start s = match s with
| [] -> []
| x :: r -> if is_ws x then trim_start r else s

(** val take_non_ws : str -> str **)

let rec take_non_ws = function
| [] -> []
| x :: r -> if is_ws x then [] else x :: (take_non_ws r)

(** val first_word : str -> str option **)

let first_word s =
  match take_non_ws (trim_start s) with
  | [] -> None
  | n :: l -> Some (n :: l)

(** val is_ascii_lower : coq_N -> bool **)

let is_ascii_lower c =
  (&&)
    (N.leb (Npos (Coq_xI (Coq_xO (Coq_xO (Coq_xO (Coq_xO (Coq_xI
      Coq_xH))))))) c)
    (N.leb c (Npos (Coq_xO (Coq_xI (Coq_xO (Coq_xI (Coq_xI (Coq_xI
      Coq_xH))))))))

(** val is_ascii_upper : coq_N -> bool **)

let is_ascii_upper c =
  (&&)
    (N.leb (Npos (Coq_xI (Coq_xO (Coq_xO (Coq_xO (Coq_xO (Coq_xO
      Coq_xH))))))) c)
    (N.leb c (Npos (Coq_xO (Coq_xI (Coq_xO (Coq_xI (Coq_xI (Coq_xO
      Coq_xH))))))))

(** val to_ascii_lower : coq_N -> coq_N **)

let to_ascii_lower c =
  if is_ascii_upper c
  then N.add c (Npos (Coq_xO (Coq_xO (Coq_xO (Coq_xO (Coq_xO Coq_xH))))))
  else c

(** val lower_str : str -> str **)

let lower_str s =
  map to_ascii_lower s

(** val eq_ignore_ascii_case : str -> str -> bool **)

let eq_ignore_ascii_case a b =
  str_eqb (lower_str a) (lower_str b)

(** val str_ltb : str -> str -> bool **)

let rec str_ltb a b =
  match a with
  | [] -> (match b with
           | [] -> false
           | _ :: _ -> true)
  | x :: a' ->
    (match b with
     | [] -> false
     | y :: b' ->
       if N.ltb x y then true else if N.eqb x y then str_ltb a' b' else false)

(** val mem_str : str -> str list -> bool **)

let rec mem_str x = function
| [] -> false
| y :: r -> (||) (str_eqb x y) (mem_str x r)

(** val set_insert : str -> str list -> str list **)

let rec set_insert x l = match l with
| [] -> x :: []
| y :: r ->
  if str_eqb x y
  then l
  else if str_ltb x y then x :: l else y :: (set_insert x r)

(** val iset_insert : str -> str list -> str list **)

let iset_insert x l =
  if mem_str x l then l else app l (x :: [])

(** val dec_digits : nat -> coq_N -> str -> str **)

let rec dec_digits fuel n acc =
  match fuel with
  | O -> acc
  | S f ->
    let d = N.modulo n (Npos (Coq_xO (Coq_xI (Coq_xO Coq_xH)))) in
    let q = N.div n (Npos (Coq_xO (Coq_xI (Coq_xO Coq_xH)))) in
    let acc' =
      (N.add (Npos (Coq_xO (Coq_xO (Coq_xO (Coq_xO (Coq_xI Coq_xH)))))) d) :: acc
    in
    if N.eqb q N0 then acc' else dec_digits f q acc'

(** val dec_of_N : coq_N -> str **)

let dec_of_N n =
  dec_digits (S (S (S (S (S (S (S (S (S (S (S (S (S (S (S (S (S (S (S (S (S
    (S (S (S (S (S (S (S (S (S (S (S (S (S (S (S (S (S (S (S
    O)))))))))))))))))))))))))))))))))))))))) n []

(** val coq_N_of_dec_aux : str -> coq_N -> coq_N option **)

let rec coq_N_of_dec_aux s acc =
  match s with
  | [] -> Some acc
  | c :: r ->
    if (&&)
         (N.leb (Npos (Coq_xO (Coq_xO (Coq_xO (Coq_xO (Coq_xI Coq_xH)))))) c)
         (N.leb c (Npos (Coq_xI (Coq_xO (Coq_xO (Coq_xI (Coq_xI Coq_xH)))))))
    then coq_N_of_dec_aux r
           (N.add (N.mul acc (Npos (Coq_xO (Coq_xI (Coq_xO Coq_xH)))))
             (N.sub c (Npos (Coq_xO (Coq_xO (Coq_xO (Coq_xO (Coq_xI
               Coq_xH))))))))
    else None

(** val coq_N_of_dec : str -> coq_N option **)

let coq_N_of_dec s = match s with
| [] -> None
| _ :: _ -> coq_N_of_dec_aux s N0
