open Ascii
open Ast
open BinNat
open BinNums
open Bool
open Context
open Datatypes
open DcViews
open Json
open List
open NodeInd
open Options
open OutViews
open Plain
open Pragma
open SiteCheck
open SlotFlagCheck
open State
open Str
open String
open Tables
open TyParse
open Types
open Visitor

val jfield_d : string -> jv -> jv

val jbool_d : jv -> bool

val jstrs : jv -> str list

val options_of : jv -> options

val matches_of : jv -> (str * bool list) list

val env_of : jv -> env

val model_run : jv -> jv * st

val strs_eqb : str list -> str list -> bool

val insert_sorted_set : str -> str list -> str list

val sort_strs : str list -> str list

type case_result = { cr_relevant : bool; cr_roundtrip : bool;
                     cr_same_status : bool; cr_same_out : bool;
                     cr_same_diag : bool; cr_model_out : jv;
                     cr_model_diags : str list; cr_extra : (str * str) list;
                     cr_views : jv }

val b2s : bool -> str

val is_ok_status : jv -> bool

val module_items : node -> node list

val subseq_items : node list -> node list -> bool

val ends_with : string -> str -> bool

val is_stmt : node -> bool

val remove_jv : jv -> jv list -> jv list option

val sub_multiset : jv list -> jv list -> bool

val stmts_kept : node -> node -> bool

val extras : jv -> jv -> (str * str) list

val regex_table : jv -> str -> bool

val opt_corr : jv -> bool

val run_case : jv -> case_result
