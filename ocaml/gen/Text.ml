open BinNums
open Str

(** val clean_line : bool -> bool -> str -> str **)

let clean_line first last l =
  let l0 =
    if first
    then l
    else trim_start_c (Npos (Coq_xO (Coq_xO (Coq_xO (Coq_xO (Coq_xO
           Coq_xH)))))) l
  in
  if last
  then l0
  else trim_end_c (Npos (Coq_xO (Coq_xO (Coq_xO (Coq_xO (Coq_xO Coq_xH))))))
         l0

(** val clean_lines : bool -> str list -> str list **)

let rec clean_lines first = function
| [] -> []
| l :: r ->
  (match r with
   | [] ->
     let l' = clean_line first true l in
     (match l' with
      | [] -> []
      | _ :: _ -> l' :: [])
   | _ :: _ ->
     let l' = clean_line first false l in
     (match l' with
      | [] -> clean_lines false r
      | _ :: _ -> l' :: (clean_lines false r)))

(** val transform_text : str -> str **)

let transform_text text =
  let v =
    replace_char (Npos (Coq_xI (Coq_xO (Coq_xO Coq_xH)))) (Npos (Coq_xO
      (Coq_xO (Coq_xO (Coq_xO (Coq_xO Coq_xH))))))
      (replace_char (Npos (Coq_xI (Coq_xO (Coq_xI Coq_xH)))) (Npos (Coq_xO
        (Coq_xI (Coq_xO Coq_xH)))) (replace_crlf text))
  in
  join ((Npos (Coq_xO (Coq_xO (Coq_xO (Coq_xO (Coq_xO Coq_xH)))))) :: [])
    (clean_lines true (split_on (Npos (Coq_xO (Coq_xI (Coq_xO Coq_xH)))) v))
