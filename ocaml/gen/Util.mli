open Ascii
open Ast
open BinNums
open Datatypes
open Json
open List
open State
open Str
open String

val is_lit : node -> bool

val is_constant : node -> bool

val attr_value_constant : node -> bool

val is_on : str -> bool

val dedupe_mergeable : str -> bool

val update_first : str -> (node -> node) -> node list -> node list option

val merge_into : node -> node -> node

val dedupe_step : node list -> node -> node list

val dedupe_props : node list -> node list

val decouple_one : node list -> node

val decouple_v_models : node list -> node list

val gobj : string -> node list -> node

val fld : string -> node -> node

val sc_bool : bool -> node

val sc_str : string -> node

val sc_N : coq_N -> node

val mk_return : node -> node

val fn_fields : node list -> node -> node list

val mk_param : node -> node

val mk_fn_expr : node list -> node -> node

val mk_fn_decl : node -> node list -> node -> node

val mk_var_decl : string -> node list -> node

val mk_declarator : node -> node -> node

val build_slot_helper : node -> node -> coq_N -> node
