open Ascii
open Ast
open BinNat
open BinNums
open Datatypes
open List
open State
open Str
open String

val attr_base_name : node -> str

val is_directive_name : str -> bool

val is_directive : node -> bool

type directive =
| DNormal of str * node option * node option * node
| DText of node
| DHtml of node
| DVModel of node option * node option * node option * node
| DSlots of node option

val lowercase_first : str -> str

val parse_modifiers : node list -> str list

val set_of_list : str list -> str list

val is_ascii_alpha : coq_N -> bool

val is_ascii_digit : coq_N -> bool

val is_simple_ident : str -> bool

val transform_modifiers : str list -> bool -> node option

val nonempty_mods : str list option -> bool

val elem_at : node list -> nat -> node option

val as_array : node -> node list option

val or_void0 : node option -> node option

val first_or_self : node -> node

val parse_html_text : string -> node -> st -> node * st

val array_form :
  bool -> node option -> str list -> node list -> (node * node option) * str
  list option

val vmodel_attr_value : node -> st -> node * st

val vmodel_first_check : node -> st -> st

val vmodel_parts :
  node -> bool -> node option -> str list -> (node * node option) * str list
  option

val is_assignable : node -> bool

val vmodel_target_check : node -> st -> st

val parse_v_model :
  node -> bool -> node option -> str list -> st -> directive * st

val parse_v_slots : node -> directive

val normal_parts :
  node -> node option -> str list -> (node * node option) * str list option

val parse_directive : node -> node -> bool -> st -> directive * st
