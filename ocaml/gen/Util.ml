open Ascii
open Ast
open BinNums
open Datatypes
open Json
open List
open State
open Str
open String

(** val is_lit : node -> bool **)

let is_lit n = match n with
| NObj _ ->
  (||)
    (sq (String ((Ascii (false, true, false, false, false, false, true,
      false)), (String ((Ascii (true, false, false, true, false, true, true,
      false)), (String ((Ascii (true, true, true, false, false, true, true,
      false)), (String ((Ascii (true, false, false, true, false, false, true,
      false)), (String ((Ascii (false, true, true, true, false, true, true,
      false)), (String ((Ascii (false, false, true, false, true, true, true,
      false)), (String ((Ascii (false, false, true, true, false, false, true,
      false)), (String ((Ascii (true, false, false, true, false, true, true,
      false)), (String ((Ascii (false, false, true, false, true, true, true,
      false)), (String ((Ascii (true, false, true, false, false, true, true,
      false)), (String ((Ascii (false, true, false, false, true, true, true,
      false)), (String ((Ascii (true, false, false, false, false, true, true,
      false)), (String ((Ascii (false, false, true, true, false, true, true,
      false)), EmptyString)))))))))))))))))))))))))) (ntype n))
    (sq (String ((Ascii (false, true, false, false, true, false, true,
      false)), (String ((Ascii (true, false, true, false, false, true, true,
      false)), (String ((Ascii (true, true, true, false, false, true, true,
      false)), (String ((Ascii (true, false, true, false, false, false, true,
      false)), (String ((Ascii (false, false, false, true, true, true, true,
      false)), (String ((Ascii (false, false, false, false, true, true, true,
      false)), (String ((Ascii (false, false, true, true, false, false, true,
      false)), (String ((Ascii (true, false, false, true, false, true, true,
      false)), (String ((Ascii (false, false, true, false, true, true, true,
      false)), (String ((Ascii (true, false, true, false, false, true, true,
      false)), (String ((Ascii (false, true, false, false, true, true, true,
      false)), (String ((Ascii (true, false, false, false, false, true, true,
      false)), (String ((Ascii (false, false, true, true, false, true, true,
      false)), EmptyString)))))))))))))))))))))))))) (ntype n))
| Str (_, _) -> true
| Num (_, _) -> true
| Bool _ -> true
| Null -> true
| JText (_, _) -> true
| _ -> false

(** val is_constant : node -> bool **)

let rec is_constant e = match e with
| Ident (s, _, _) ->
  sq (String ((Ascii (true, false, true, false, true, true, true, false)),
    (String ((Ascii (false, true, true, true, false, true, true, false)),
    (String ((Ascii (false, false, true, false, false, true, true, false)),
    (String ((Ascii (true, false, true, false, false, true, true, false)),
    (String ((Ascii (false, true, true, false, false, true, true, false)),
    (String ((Ascii (true, false, false, true, false, true, true, false)),
    (String ((Ascii (false, true, true, true, false, true, true, false)),
    (String ((Ascii (true, false, true, false, false, true, true, false)),
    (String ((Ascii (false, false, true, false, false, true, true, false)),
    EmptyString)))))))))))))))))) s
| Arr elems ->
  forallb (fun x ->
    match x with
    | Elem (spread, a) -> if spread then false else is_constant a
    | _ -> false) elems
| Obj props ->
  forallb (fun p ->
    match p with
    | Ident (s, _, _) ->
      sq (String ((Ascii (true, false, true, false, true, true, true,
        false)), (String ((Ascii (false, true, true, true, false, true, true,
        false)), (String ((Ascii (false, false, true, false, false, true,
        true, false)), (String ((Ascii (true, false, true, false, false,
        true, true, false)), (String ((Ascii (false, true, true, false,
        false, true, true, false)), (String ((Ascii (true, false, false,
        true, false, true, true, false)), (String ((Ascii (false, true, true,
        true, false, true, true, false)), (String ((Ascii (true, false, true,
        false, false, true, true, false)), (String ((Ascii (false, false,
        true, false, false, true, true, false)),
        EmptyString)))))))))))))))))) s
    | KV (_, v) -> is_constant v
    | _ -> false) props
| _ -> is_lit e

(** val attr_value_constant : node -> bool **)

let attr_value_constant = function
| Str (_, _) -> true
| JExprC e -> (match e with
               | JEmpty -> false
               | _ -> is_constant e)
| _ -> false

(** val is_on : str -> bool **)

let is_on = function
| [] -> false
| n :: l ->
  (match n with
   | N0 -> false
   | Npos p ->
     (match p with
      | Coq_xI p0 ->
        (match p0 with
         | Coq_xI p1 ->
           (match p1 with
            | Coq_xI p2 ->
              (match p2 with
               | Coq_xI p3 ->
                 (match p3 with
                  | Coq_xO p4 ->
                    (match p4 with
                     | Coq_xI p5 ->
                       (match p5 with
                        | Coq_xH ->
                          (match l with
                           | [] -> false
                           | n0 :: l0 ->
                             (match n0 with
                              | N0 -> false
                              | Npos p6 ->
                                (match p6 with
                                 | Coq_xO p7 ->
                                   (match p7 with
                                    | Coq_xI p8 ->
                                      (match p8 with
                                       | Coq_xI p9 ->
                                         (match p9 with
                                          | Coq_xI p10 ->
                                            (match p10 with
                                             | Coq_xO p11 ->
                                               (match p11 with
                                                | Coq_xI p12 ->
                                                  (match p12 with
                                                   | Coq_xH ->
                                                     (match l0 with
                                                      | [] -> false
                                                      | c :: _ ->
                                                        negb
                                                          (is_ascii_lower c))
                                                   | _ -> false)
                                                | _ -> false)
                                             | _ -> false)
                                          | _ -> false)
                                       | _ -> false)
                                    | _ -> false)
                                 | _ -> false)))
                        | _ -> false)
                     | _ -> false)
                  | _ -> false)
               | _ -> false)
            | _ -> false)
         | _ -> false)
      | _ -> false))

(** val dedupe_mergeable : str -> bool **)

let dedupe_mergeable name =
  (||)
    ((||)
      (sq (String ((Ascii (true, true, false, false, false, true, true,
        false)), (String ((Ascii (false, false, true, true, false, true,
        true, false)), (String ((Ascii (true, false, false, false, false,
        true, true, false)), (String ((Ascii (true, true, false, false, true,
        true, true, false)), (String ((Ascii (true, true, false, false, true,
        true, true, false)), EmptyString)))))))))) name)
      (sq (String ((Ascii (true, true, false, false, true, true, true,
        false)), (String ((Ascii (false, false, true, false, true, true,
        true, false)), (String ((Ascii (true, false, false, true, true, true,
        true, false)), (String ((Ascii (false, false, true, true, false,
        true, true, false)), (String ((Ascii (true, false, true, false,
        false, true, true, false)), EmptyString)))))))))) name))
    (starts_with
      (s_ (String ((Ascii (true, true, true, true, false, true, true,
        false)), (String ((Ascii (false, true, true, true, false, true, true,
        false)), EmptyString))))) name)

(** val update_first :
    str -> (node -> node) -> node list -> node list option **)

let rec update_first name f = function
| [] -> None
| p :: r ->
  (match p with
   | KV (key, v) ->
     (match key with
      | Str (k, w) ->
        if str_eqb k name
        then Some ((KV ((Str (k, w)), (f v))) :: r)
        else (match update_first name f r with
              | Some r' -> Some (p :: r')
              | None -> None)
      | _ ->
        (match update_first name f r with
         | Some r' -> Some (p :: r')
         | None -> None))
   | _ ->
     (match update_first name f r with
      | Some r' -> Some (p :: r')
      | None -> None))

(** val merge_into : node -> node -> node **)

let merge_into value old = match old with
| Arr elems -> Arr (app elems ((Elem (false, value)) :: []))
| _ -> Arr ((Elem (false, old)) :: ((Elem (false, value)) :: []))

(** val dedupe_step : node list -> node -> node list **)

let dedupe_step defined p = match p with
| KV (key, value) ->
  (match key with
   | Str (name, _) ->
     if dedupe_mergeable name
     then (match update_first name (merge_into value) defined with
           | Some d -> d
           | None -> app defined (p :: []))
     else app defined (p :: [])
   | _ -> app defined (p :: []))
| _ -> app defined (p :: [])

(** val dedupe_props : node list -> node list **)

let dedupe_props props =
  fold_left dedupe_step props []

(** val decouple_one : node list -> node **)

let decouple_one elems =
  let argument =
    match nth_error elems (S O) with
    | Some n ->
      (match n with
       | NScalar _ -> None
       | NArr _ -> None
       | NObj _ -> None
       | Field (_, _) -> None
       | Ident (_, _, _) -> None
       | BIdent (_, _, _, _) -> None
       | IdName _ -> None
       | Str (_, _) -> None
       | Num (_, _) -> None
       | Bool _ -> None
       | Null -> None
       | Arr _ -> None
       | Elem (spread, e) ->
         if spread
         then None
         else (match e with
               | NScalar _ -> None
               | NArr _ -> None
               | NObj _ -> None
               | Field (_, _) -> None
               | Ident (_, _, _) -> None
               | BIdent (_, _, _, _) -> None
               | IdName _ -> None
               | Str (v, _) -> Some v
               | _ -> None)
       | _ -> None)
    | None -> None
  in
  (match argument with
   | Some a ->
     let elems' =
       match elems with
       | [] -> elems
       | x :: l -> (match l with
                    | [] -> elems
                    | _ :: r -> x :: r)
     in
     JAttr ((JNs ((IdName
     (s_ (String ((Ascii (false, true, true, false, true, true, true,
       false)), (String ((Ascii (true, false, true, true, false, true, false,
       false)), (String ((Ascii (true, false, true, true, false, true, true,
       false)), (String ((Ascii (true, true, true, true, false, true, true,
       false)), (String ((Ascii (false, false, true, false, false, true,
       true, false)), (String ((Ascii (true, false, true, false, false, true,
       true, false)), (String ((Ascii (false, false, true, true, false, true,
       true, false)), EmptyString)))))))))))))))), (IdName a))), (JExprC (Arr
     elems')))
   | None ->
     JAttr ((IdName
       (s_ (String ((Ascii (false, true, true, false, true, true, true,
         false)), (String ((Ascii (true, false, true, true, false, true,
         false, false)), (String ((Ascii (true, false, true, true, false,
         true, true, false)), (String ((Ascii (true, true, true, true, false,
         true, true, false)), (String ((Ascii (false, false, true, false,
         false, true, true, false)), (String ((Ascii (true, false, true,
         false, false, true, true, false)), (String ((Ascii (false, false,
         true, true, false, true, true, false)), EmptyString)))))))))))))))),
       (JExprC (Arr elems))))

(** val decouple_v_models : node list -> node list **)

let rec decouple_v_models = function
| [] -> []
| n :: r ->
  (match n with
   | Elem (spread, e) ->
     if spread
     then decouple_v_models r
     else (match e with
           | Arr inner -> (decouple_one inner) :: (decouple_v_models r)
           | _ -> decouple_v_models r)
   | _ -> decouple_v_models r)

(** val gobj : string -> node list -> node **)

let gobj ty fields =
  NObj ((Field
    ((s_ (String ((Ascii (false, false, true, false, true, true, true,
       false)), (String ((Ascii (true, false, false, true, true, true, true,
       false)), (String ((Ascii (false, false, false, false, true, true,
       true, false)), (String ((Ascii (true, false, true, false, false, true,
       true, false)), EmptyString))))))))), (NScalar (JStr
    (s_ ty))))) :: fields)

(** val fld : string -> node -> node **)

let fld k v =
  Field ((s_ k), v)

(** val sc_bool : bool -> node **)

let sc_bool b =
  NScalar (JBool b)

(** val sc_str : string -> node **)

let sc_str s =
  NScalar (JStr (s_ s))

(** val sc_N : coq_N -> node **)

let sc_N n =
  NScalar (JNum (dec_of_N n))

(** val mk_return : node -> node **)

let mk_return e =
  gobj (String ((Ascii (false, true, false, false, true, false, true,
    false)), (String ((Ascii (true, false, true, false, false, true, true,
    false)), (String ((Ascii (false, false, true, false, true, true, true,
    false)), (String ((Ascii (true, false, true, false, true, true, true,
    false)), (String ((Ascii (false, true, false, false, true, true, true,
    false)), (String ((Ascii (false, true, true, true, false, true, true,
    false)), (String ((Ascii (true, true, false, false, true, false, true,
    false)), (String ((Ascii (false, false, true, false, true, true, true,
    false)), (String ((Ascii (true, false, false, false, false, true, true,
    false)), (String ((Ascii (false, false, true, false, true, true, true,
    false)), (String ((Ascii (true, false, true, false, false, true, true,
    false)), (String ((Ascii (true, false, true, true, false, true, true,
    false)), (String ((Ascii (true, false, true, false, false, true, true,
    false)), (String ((Ascii (false, true, true, true, false, true, true,
    false)), (String ((Ascii (false, false, true, false, true, true, true,
    false)), EmptyString))))))))))))))))))))))))))))))
    ((fld (String ((Ascii (true, false, false, false, false, true, true,
       false)), (String ((Ascii (false, true, false, false, true, true, true,
       false)), (String ((Ascii (true, true, true, false, false, true, true,
       false)), (String ((Ascii (true, false, true, false, true, true, true,
       false)), (String ((Ascii (true, false, true, true, false, true, true,
       false)), (String ((Ascii (true, false, true, false, false, true, true,
       false)), (String ((Ascii (false, true, true, true, false, true, true,
       false)), (String ((Ascii (false, false, true, false, true, true, true,
       false)), EmptyString)))))))))))))))) e) :: [])

(** val fn_fields : node list -> node -> node list **)

let fn_fields params body =
  (fld (String ((Ascii (false, false, false, false, true, true, true,
    false)), (String ((Ascii (true, false, false, false, false, true, true,
    false)), (String ((Ascii (false, true, false, false, true, true, true,
    false)), (String ((Ascii (true, false, false, false, false, true, true,
    false)), (String ((Ascii (true, false, true, true, false, true, true,
    false)), (String ((Ascii (true, true, false, false, true, true, true,
    false)), EmptyString)))))))))))) (NArr params)) :: ((fld (String ((Ascii
                                                          (false, false,
                                                          true, false, false,
                                                          true, true,
                                                          false)), (String
                                                          ((Ascii (true,
                                                          false, true, false,
                                                          false, true, true,
                                                          false)), (String
                                                          ((Ascii (true,
                                                          true, false, false,
                                                          false, true, true,
                                                          false)), (String
                                                          ((Ascii (true,
                                                          true, true, true,
                                                          false, true, true,
                                                          false)), (String
                                                          ((Ascii (false,
                                                          true, false, false,
                                                          true, true, true,
                                                          false)), (String
                                                          ((Ascii (true,
                                                          false, false,
                                                          false, false, true,
                                                          true, false)),
                                                          (String ((Ascii
                                                          (false, false,
                                                          true, false, true,
                                                          true, true,
                                                          false)), (String
                                                          ((Ascii (true,
                                                          true, true, true,
                                                          false, true, true,
                                                          false)), (String
                                                          ((Ascii (false,
                                                          true, false, false,
                                                          true, true, true,
                                                          false)), (String
                                                          ((Ascii (true,
                                                          true, false, false,
                                                          true, true, true,
                                                          false)),
                                                          EmptyString))))))))))))))))))))
                                                          (NArr [])) :: (
    (fld (String ((Ascii (true, true, false, false, false, true, true,
      false)), (String ((Ascii (false, false, true, false, true, true, true,
      false)), (String ((Ascii (false, false, false, true, true, true, true,
      false)), (String ((Ascii (false, false, true, false, true, true, true,
      false)), EmptyString)))))))) (sc_N N0)) :: ((fld (String ((Ascii
                                                    (false, true, false,
                                                    false, false, true, true,
                                                    false)), (String ((Ascii
                                                    (true, true, true, true,
                                                    false, true, true,
                                                    false)), (String ((Ascii
                                                    (false, false, true,
                                                    false, false, true, true,
                                                    false)), (String ((Ascii
                                                    (true, false, false,
                                                    true, true, true, true,
                                                    false)),
                                                    EmptyString)))))))) body) :: (
    (fld (String ((Ascii (true, true, true, false, false, true, true,
      false)), (String ((Ascii (true, false, true, false, false, true, true,
      false)), (String ((Ascii (false, true, true, true, false, true, true,
      false)), (String ((Ascii (true, false, true, false, false, true, true,
      false)), (String ((Ascii (false, true, false, false, true, true, true,
      false)), (String ((Ascii (true, false, false, false, false, true, true,
      false)), (String ((Ascii (false, false, true, false, true, true, true,
      false)), (String ((Ascii (true, true, true, true, false, true, true,
      false)), (String ((Ascii (false, true, false, false, true, true, true,
      false)), EmptyString)))))))))))))))))) (sc_bool false)) :: ((fld
                                                                    (String
                                                                    ((Ascii
                                                                    (true,
                                                                    false,
                                                                    false,
                                                                    false,
                                                                    false,
                                                                    true,
                                                                    true,
                                                                    false)),
                                                                    (String
                                                                    ((Ascii
                                                                    (true,
                                                                    true,
                                                                    false,
                                                                    false,
                                                                    true,
                                                                    true,
                                                                    true,
                                                                    false)),
                                                                    (String
                                                                    ((Ascii
                                                                    (true,
                                                                    false,
                                                                    false,
                                                                    true,
                                                                    true,
                                                                    true,
                                                                    true,
                                                                    false)),
                                                                    (String
                                                                    ((Ascii
                                                                    (false,
                                                                    true,
                                                                    true,
                                                                    true,
                                                                    false,
                                                                    true,
                                                                    true,
                                                                    false)),
                                                                    (String
                                                                    ((Ascii
                                                                    (true,
                                                                    true,
                                                                    false,
                                                                    false,
                                                                    false,
                                                                    true,
                                                                    true,
                                                                    false)),
                                                                    EmptyString))))))))))
                                                                    (sc_bool
                                                                    false)) :: (
    (fld (String ((Ascii (false, false, true, false, true, true, true,
      false)), (String ((Ascii (true, false, false, true, true, true, true,
      false)), (String ((Ascii (false, false, false, false, true, true, true,
      false)), (String ((Ascii (true, false, true, false, false, true, true,
      false)), (String ((Ascii (false, false, false, false, true, false,
      true, false)), (String ((Ascii (true, false, false, false, false, true,
      true, false)), (String ((Ascii (false, true, false, false, true, true,
      true, false)), (String ((Ascii (true, false, false, false, false, true,
      true, false)), (String ((Ascii (true, false, true, true, false, true,
      true, false)), (String ((Ascii (true, false, true, false, false, true,
      true, false)), (String ((Ascii (false, false, true, false, true, true,
      true, false)), (String ((Ascii (true, false, true, false, false, true,
      true, false)), (String ((Ascii (false, true, false, false, true, true,
      true, false)), (String ((Ascii (true, true, false, false, true, true,
      true, false)), EmptyString)))))))))))))))))))))))))))) nnull) :: (
    (fld (String ((Ascii (false, true, false, false, true, true, true,
      false)), (String ((Ascii (true, false, true, false, false, true, true,
      false)), (String ((Ascii (false, false, true, false, true, true, true,
      false)), (String ((Ascii (true, false, true, false, true, true, true,
      false)), (String ((Ascii (false, true, false, false, true, true, true,
      false)), (String ((Ascii (false, true, true, true, false, true, true,
      false)), (String ((Ascii (false, false, true, false, true, false, true,
      false)), (String ((Ascii (true, false, false, true, true, true, true,
      false)), (String ((Ascii (false, false, false, false, true, true, true,
      false)), (String ((Ascii (true, false, true, false, false, true, true,
      false)), EmptyString)))))))))))))))))))) nnull) :: [])))))))

(** val mk_param : node -> node **)

let mk_param pat =
  gobj (String ((Ascii (false, false, false, false, true, false, true,
    false)), (String ((Ascii (true, false, false, false, false, true, true,
    false)), (String ((Ascii (false, true, false, false, true, true, true,
    false)), (String ((Ascii (true, false, false, false, false, true, true,
    false)), (String ((Ascii (true, false, true, true, false, true, true,
    false)), (String ((Ascii (true, false, true, false, false, true, true,
    false)), (String ((Ascii (false, false, true, false, true, true, true,
    false)), (String ((Ascii (true, false, true, false, false, true, true,
    false)), (String ((Ascii (false, true, false, false, true, true, true,
    false)), EmptyString))))))))))))))))))
    ((fld (String ((Ascii (false, false, true, false, false, true, true,
       false)), (String ((Ascii (true, false, true, false, false, true, true,
       false)), (String ((Ascii (true, true, false, false, false, true, true,
       false)), (String ((Ascii (true, true, true, true, false, true, true,
       false)), (String ((Ascii (false, true, false, false, true, true, true,
       false)), (String ((Ascii (true, false, false, false, false, true,
       true, false)), (String ((Ascii (false, false, true, false, true, true,
       true, false)), (String ((Ascii (true, true, true, true, false, true,
       true, false)), (String ((Ascii (false, true, false, false, true, true,
       true, false)), (String ((Ascii (true, true, false, false, true, true,
       true, false)), EmptyString)))))))))))))))))))) (NArr [])) :: (
    (fld (String ((Ascii (false, false, false, false, true, true, true,
      false)), (String ((Ascii (true, false, false, false, false, true, true,
      false)), (String ((Ascii (false, false, true, false, true, true, true,
      false)), EmptyString)))))) pat) :: []))

(** val mk_fn_expr : node list -> node -> node **)

let mk_fn_expr params body =
  gobj (String ((Ascii (false, true, true, false, false, false, true,
    false)), (String ((Ascii (true, false, true, false, true, true, true,
    false)), (String ((Ascii (false, true, true, true, false, true, true,
    false)), (String ((Ascii (true, true, false, false, false, true, true,
    false)), (String ((Ascii (false, false, true, false, true, true, true,
    false)), (String ((Ascii (true, false, false, true, false, true, true,
    false)), (String ((Ascii (true, true, true, true, false, true, true,
    false)), (String ((Ascii (false, true, true, true, false, true, true,
    false)), (String ((Ascii (true, false, true, false, false, false, true,
    false)), (String ((Ascii (false, false, false, true, true, true, true,
    false)), (String ((Ascii (false, false, false, false, true, true, true,
    false)), (String ((Ascii (false, true, false, false, true, true, true,
    false)), (String ((Ascii (true, false, true, false, false, true, true,
    false)), (String ((Ascii (true, true, false, false, true, true, true,
    false)), (String ((Ascii (true, true, false, false, true, true, true,
    false)), (String ((Ascii (true, false, false, true, false, true, true,
    false)), (String ((Ascii (true, true, true, true, false, true, true,
    false)), (String ((Ascii (false, true, true, true, false, true, true,
    false)), EmptyString))))))))))))))))))))))))))))))))))))
    ((fld (String ((Ascii (true, false, false, true, false, true, true,
       false)), (String ((Ascii (false, false, true, false, false, true,
       true, false)), (String ((Ascii (true, false, true, false, false, true,
       true, false)), (String ((Ascii (false, true, true, true, false, true,
       true, false)), (String ((Ascii (false, false, true, false, true, true,
       true, false)), (String ((Ascii (true, false, false, true, false, true,
       true, false)), (String ((Ascii (false, true, true, false, false, true,
       true, false)), (String ((Ascii (true, false, false, true, false, true,
       true, false)), (String ((Ascii (true, false, true, false, false, true,
       true, false)), (String ((Ascii (false, true, false, false, true, true,
       true, false)), EmptyString)))))))))))))))))))) nnull) :: (fn_fields
                                                                  params body))

(** val mk_fn_decl : node -> node list -> node -> node **)

let mk_fn_decl id params body =
  gobj (String ((Ascii (false, true, true, false, false, false, true,
    false)), (String ((Ascii (true, false, true, false, true, true, true,
    false)), (String ((Ascii (false, true, true, true, false, true, true,
    false)), (String ((Ascii (true, true, false, false, false, true, true,
    false)), (String ((Ascii (false, false, true, false, true, true, true,
    false)), (String ((Ascii (true, false, false, true, false, true, true,
    false)), (String ((Ascii (true, true, true, true, false, true, true,
    false)), (String ((Ascii (false, true, true, true, false, true, true,
    false)), (String ((Ascii (false, false, true, false, false, false, true,
    false)), (String ((Ascii (true, false, true, false, false, true, true,
    false)), (String ((Ascii (true, true, false, false, false, true, true,
    false)), (String ((Ascii (false, false, true, true, false, true, true,
    false)), (String ((Ascii (true, false, false, false, false, true, true,
    false)), (String ((Ascii (false, true, false, false, true, true, true,
    false)), (String ((Ascii (true, false, false, false, false, true, true,
    false)), (String ((Ascii (false, false, true, false, true, true, true,
    false)), (String ((Ascii (true, false, false, true, false, true, true,
    false)), (String ((Ascii (true, true, true, true, false, true, true,
    false)), (String ((Ascii (false, true, true, true, false, true, true,
    false)), EmptyString))))))))))))))))))))))))))))))))))))))
    ((fld (String ((Ascii (true, false, false, true, false, true, true,
       false)), (String ((Ascii (false, false, true, false, false, true,
       true, false)), (String ((Ascii (true, false, true, false, false, true,
       true, false)), (String ((Ascii (false, true, true, true, false, true,
       true, false)), (String ((Ascii (false, false, true, false, true, true,
       true, false)), (String ((Ascii (true, false, false, true, false, true,
       true, false)), (String ((Ascii (false, true, true, false, false, true,
       true, false)), (String ((Ascii (true, false, false, true, false, true,
       true, false)), (String ((Ascii (true, false, true, false, false, true,
       true, false)), (String ((Ascii (false, true, false, false, true, true,
       true, false)), EmptyString)))))))))))))))))))) id) :: ((fld (String
                                                                ((Ascii
                                                                (false,
                                                                false, true,
                                                                false, false,
                                                                true, true,
                                                                false)),
                                                                (String
                                                                ((Ascii
                                                                (true, false,
                                                                true, false,
                                                                false, true,
                                                                true,
                                                                false)),
                                                                (String
                                                                ((Ascii
                                                                (true, true,
                                                                false, false,
                                                                false, true,
                                                                true,
                                                                false)),
                                                                (String
                                                                ((Ascii
                                                                (false,
                                                                false, true,
                                                                true, false,
                                                                true, true,
                                                                false)),
                                                                (String
                                                                ((Ascii
                                                                (true, false,
                                                                false, false,
                                                                false, true,
                                                                true,
                                                                false)),
                                                                (String
                                                                ((Ascii
                                                                (false, true,
                                                                false, false,
                                                                true, true,
                                                                true,
                                                                false)),
                                                                (String
                                                                ((Ascii
                                                                (true, false,
                                                                true, false,
                                                                false, true,
                                                                true,
                                                                false)),
                                                                EmptyString))))))))))))))
                                                                (sc_bool
                                                                  false)) :: 
    (fn_fields params body)))

(** val mk_var_decl : string -> node list -> node **)

let mk_var_decl kind decls =
  gobj (String ((Ascii (false, true, true, false, true, false, true, false)),
    (String ((Ascii (true, false, false, false, false, true, true, false)),
    (String ((Ascii (false, true, false, false, true, true, true, false)),
    (String ((Ascii (true, false, false, true, false, true, true, false)),
    (String ((Ascii (true, false, false, false, false, true, true, false)),
    (String ((Ascii (false, true, false, false, false, true, true, false)),
    (String ((Ascii (false, false, true, true, false, true, true, false)),
    (String ((Ascii (true, false, true, false, false, true, true, false)),
    (String ((Ascii (false, false, true, false, false, false, true, false)),
    (String ((Ascii (true, false, true, false, false, true, true, false)),
    (String ((Ascii (true, true, false, false, false, true, true, false)),
    (String ((Ascii (false, false, true, true, false, true, true, false)),
    (String ((Ascii (true, false, false, false, false, true, true, false)),
    (String ((Ascii (false, true, false, false, true, true, true, false)),
    (String ((Ascii (true, false, false, false, false, true, true, false)),
    (String ((Ascii (false, false, true, false, true, true, true, false)),
    (String ((Ascii (true, false, false, true, false, true, true, false)),
    (String ((Ascii (true, true, true, true, false, true, true, false)),
    (String ((Ascii (false, true, true, true, false, true, true, false)),
    EmptyString))))))))))))))))))))))))))))))))))))))
    ((fld (String ((Ascii (true, true, false, false, false, true, true,
       false)), (String ((Ascii (false, false, true, false, true, true, true,
       false)), (String ((Ascii (false, false, false, true, true, true, true,
       false)), (String ((Ascii (false, false, true, false, true, true, true,
       false)), EmptyString)))))))) (sc_N N0)) :: ((fld (String ((Ascii
                                                     (true, true, false,
                                                     true, false, true, true,
                                                     false)), (String ((Ascii
                                                     (true, false, false,
                                                     true, false, true, true,
                                                     false)), (String ((Ascii
                                                     (false, true, true,
                                                     true, false, true, true,
                                                     false)), (String ((Ascii
                                                     (false, false, true,
                                                     false, false, true,
                                                     true, false)),
                                                     EmptyString))))))))
                                                     (sc_str kind)) :: (
    (fld (String ((Ascii (false, false, true, false, false, true, true,
      false)), (String ((Ascii (true, false, true, false, false, true, true,
      false)), (String ((Ascii (true, true, false, false, false, true, true,
      false)), (String ((Ascii (false, false, true, true, false, true, true,
      false)), (String ((Ascii (true, false, false, false, false, true, true,
      false)), (String ((Ascii (false, true, false, false, true, true, true,
      false)), (String ((Ascii (true, false, true, false, false, true, true,
      false)), EmptyString)))))))))))))) (sc_bool false)) :: ((fld (String
                                                                ((Ascii
                                                                (false,
                                                                false, true,
                                                                false, false,
                                                                true, true,
                                                                false)),
                                                                (String
                                                                ((Ascii
                                                                (true, false,
                                                                true, false,
                                                                false, true,
                                                                true,
                                                                false)),
                                                                (String
                                                                ((Ascii
                                                                (true, true,
                                                                false, false,
                                                                false, true,
                                                                true,
                                                                false)),
                                                                (String
                                                                ((Ascii
                                                                (false,
                                                                false, true,
                                                                true, false,
                                                                true, true,
                                                                false)),
                                                                (String
                                                                ((Ascii
                                                                (true, false,
                                                                false, false,
                                                                false, true,
                                                                true,
                                                                false)),
                                                                (String
                                                                ((Ascii
                                                                (false, true,
                                                                false, false,
                                                                true, true,
                                                                true,
                                                                false)),
                                                                (String
                                                                ((Ascii
                                                                (true, false,
                                                                false, false,
                                                                false, true,
                                                                true,
                                                                false)),
                                                                (String
                                                                ((Ascii
                                                                (false,
                                                                false, true,
                                                                false, true,
                                                                true, true,
                                                                false)),
                                                                (String
                                                                ((Ascii
                                                                (true, false,
                                                                false, true,
                                                                false, true,
                                                                true,
                                                                false)),
                                                                (String
                                                                ((Ascii
                                                                (true, true,
                                                                true, true,
                                                                false, true,
                                                                true,
                                                                false)),
                                                                (String
                                                                ((Ascii
                                                                (false, true,
                                                                true, true,
                                                                false, true,
                                                                true,
                                                                false)),
                                                                (String
                                                                ((Ascii
                                                                (true, true,
                                                                false, false,
                                                                true, true,
                                                                true,
                                                                false)),
                                                                EmptyString))))))))))))))))))))))))
                                                                (NArr decls)) :: []))))

(** val mk_declarator : node -> node -> node **)

let mk_declarator name init =
  gobj (String ((Ascii (false, true, true, false, true, false, true, false)),
    (String ((Ascii (true, false, false, false, false, true, true, false)),
    (String ((Ascii (false, true, false, false, true, true, true, false)),
    (String ((Ascii (true, false, false, true, false, true, true, false)),
    (String ((Ascii (true, false, false, false, false, true, true, false)),
    (String ((Ascii (false, true, false, false, false, true, true, false)),
    (String ((Ascii (false, false, true, true, false, true, true, false)),
    (String ((Ascii (true, false, true, false, false, true, true, false)),
    (String ((Ascii (false, false, true, false, false, false, true, false)),
    (String ((Ascii (true, false, true, false, false, true, true, false)),
    (String ((Ascii (true, true, false, false, false, true, true, false)),
    (String ((Ascii (false, false, true, true, false, true, true, false)),
    (String ((Ascii (true, false, false, false, false, true, true, false)),
    (String ((Ascii (false, true, false, false, true, true, true, false)),
    (String ((Ascii (true, false, false, false, false, true, true, false)),
    (String ((Ascii (false, false, true, false, true, true, true, false)),
    (String ((Ascii (true, true, true, true, false, true, true, false)),
    (String ((Ascii (false, true, false, false, true, true, true, false)),
    EmptyString))))))))))))))))))))))))))))))))))))
    ((fld (String ((Ascii (true, false, false, true, false, true, true,
       false)), (String ((Ascii (false, false, true, false, false, true,
       true, false)), EmptyString)))) name) :: ((fld (String ((Ascii (true,
                                                  false, false, true, false,
                                                  true, true, false)),
                                                  (String ((Ascii (false,
                                                  true, true, true, false,
                                                  true, true, false)),
                                                  (String ((Ascii (true,
                                                  false, false, true, false,
                                                  true, true, false)),
                                                  (String ((Ascii (false,
                                                  false, true, false, true,
                                                  true, true, false)),
                                                  EmptyString)))))))) init) :: (
    (fld (String ((Ascii (false, false, true, false, false, true, true,
      false)), (String ((Ascii (true, false, true, false, false, true, true,
      false)), (String ((Ascii (false, true, true, false, false, true, true,
      false)), (String ((Ascii (true, false, false, true, false, true, true,
      false)), (String ((Ascii (false, true, true, true, false, true, true,
      false)), (String ((Ascii (true, false, false, true, false, true, true,
      false)), (String ((Ascii (false, false, true, false, true, true, true,
      false)), (String ((Ascii (true, false, true, false, false, true, true,
      false)), EmptyString)))))))))))))))) (sc_bool false)) :: [])))

(** val build_slot_helper : node -> node -> coq_N -> node **)

let build_slot_helper helper is_vnode arg_ctx =
  let arg =
    mk_ident
      (s_ (String ((Ascii (true, true, false, false, true, true, true,
        false)), EmptyString))) arg_ctx
  in
  let body = Bin
    ((s_ (String ((Ascii (false, false, true, true, true, true, true,
       false)), (String ((Ascii (false, false, true, true, true, true, true,
       false)), EmptyString))))), (Bin
    ((s_ (String ((Ascii (true, false, true, true, true, true, false,
       false)), (String ((Ascii (true, false, true, true, true, true, false,
       false)), (String ((Ascii (true, false, true, true, true, true, false,
       false)), EmptyString))))))), (Unary
    ((s_ (String ((Ascii (false, false, true, false, true, true, true,
       false)), (String ((Ascii (true, false, false, true, true, true, true,
       false)), (String ((Ascii (false, false, false, false, true, true,
       true, false)), (String ((Ascii (true, false, true, false, false, true,
       true, false)), (String ((Ascii (true, true, true, true, false, true,
       true, false)), (String ((Ascii (false, true, true, false, false, true,
       true, false)), EmptyString))))))))))))), arg)),
    (mk_strS (String ((Ascii (false, true, true, false, false, true, true,
      false)), (String ((Ascii (true, false, true, false, true, true, true,
      false)), (String ((Ascii (false, true, true, true, false, true, true,
      false)), (String ((Ascii (true, true, false, false, false, true, true,
      false)), (String ((Ascii (false, false, true, false, true, true, true,
      false)), (String ((Ascii (true, false, false, true, false, true, true,
      false)), (String ((Ascii (true, true, true, true, false, true, true,
      false)), (String ((Ascii (false, true, true, true, false, true, true,
      false)), EmptyString))))))))))))))))))), (Bin
    ((s_ (String ((Ascii (false, true, true, false, false, true, false,
       false)), (String ((Ascii (false, true, true, false, false, true,
       false, false)), EmptyString))))), (Bin
    ((s_ (String ((Ascii (true, false, true, true, true, true, false,
       false)), (String ((Ascii (true, false, true, true, true, true, false,
       false)), (String ((Ascii (true, false, true, true, true, true, false,
       false)), EmptyString))))))),
    (mk_call (Member ((Member ((Obj []), (IdName
      (s_ (String ((Ascii (false, false, true, false, true, true, true,
        false)), (String ((Ascii (true, true, true, true, false, true, true,
        false)), (String ((Ascii (true, true, false, false, true, false,
        true, false)), (String ((Ascii (false, false, true, false, true,
        true, true, false)), (String ((Ascii (false, true, false, false,
        true, true, true, false)), (String ((Ascii (true, false, false, true,
        false, true, true, false)), (String ((Ascii (false, true, true, true,
        false, true, true, false)), (String ((Ascii (true, true, true, false,
        false, true, true, false)), EmptyString)))))))))))))))))))), (IdName
      (s_ (String ((Ascii (true, true, false, false, false, true, true,
        false)), (String ((Ascii (true, false, false, false, false, true,
        true, false)), (String ((Ascii (false, false, true, true, false,
        true, true, false)), (String ((Ascii (false, false, true, true,
        false, true, true, false)), EmptyString)))))))))))) (arg :: [])),
    (mk_strS (String ((Ascii (true, true, false, true, true, false, true,
      false)), (String ((Ascii (true, true, true, true, false, true, true,
      false)), (String ((Ascii (false, true, false, false, false, true, true,
      false)), (String ((Ascii (false, true, false, true, false, true, true,
      false)), (String ((Ascii (true, false, true, false, false, true, true,
      false)), (String ((Ascii (true, true, false, false, false, true, true,
      false)), (String ((Ascii (false, false, true, false, true, true, true,
      false)), (String ((Ascii (false, false, false, false, false, true,
      false, false)), (String ((Ascii (true, true, true, true, false, false,
      true, false)), (String ((Ascii (false, true, false, false, false, true,
      true, false)), (String ((Ascii (false, true, false, true, false, true,
      true, false)), (String ((Ascii (true, false, true, false, false, true,
      true, false)), (String ((Ascii (true, true, false, false, false, true,
      true, false)), (String ((Ascii (false, false, true, false, true, true,
      true, false)), (String ((Ascii (true, false, true, true, true, false,
      true, false)), EmptyString))))))))))))))))))))))))))))))))), (Unary
    ((s_ (String ((Ascii (true, false, false, false, false, true, false,
       false)), EmptyString))), (mk_call is_vnode (arg :: [])))))))
  in
  mk_fn_decl helper
    ((mk_param
       (mk_bident
         (s_ (String ((Ascii (true, true, false, false, true, true, true,
           false)), EmptyString))) arg_ctx)) :: []) (Block (N0,
    ((mk_return body) :: [])))
